------------------------------- MODULE Session -------------------------------
(***************************************************************************)
(* C10: the library as a long-lived SESSION.  State: the pool of live       *)
(* objects created so far (each with the TERM that denotes it: the          *)
(* operation and the terms of its arguments) and the history.  Actions are  *)
(* the public API operations; their object arguments are taken from the     *)
(* pool.  BFS enumerates all histories up to MaxLen; the harness replays    *)
(* each in a fresh interpreter, records fingerprints, evaluates every term  *)
(* ALONE in another fresh interpreter, and spec/Trace_C10.tla checks        *)
(*   frame:        no operation changes the fingerprint of a live object    *)
(*   independence: the fingerprint of a result equals that of its term      *)
(*                 evaluated alone; it raises iff it raises alone           *)
(* Programs (index into the harness's source pool) and their roles:         *)
(*   1,2  predicates on Qint[2], both NAMED f          3  g: Qint2 -> Qint2  *)
(*   4    caller of g (needs defs=[g])                 5  named "flatten"    *)
(*   6    named "reduce"      7  parameterised         8  two-to-one x>>1    *)
(*   9    named "oracle"      10 inner-product pred    11 named "ast2ast"    *)
(*   12   Qfixed predicate with the float literal 1.0   13 Qchar predicate   *)
(*   14   parameterised by a LIST consumed by sum / any (folded by the ast    *)
(*        rewriter at bind time: binding twice must not see the first fold)  *)
(*   15   named "Tuple"       16 takes a Tuple[bool, bool] argument          *)
(*   17, 18  constant locals (compiled with fastOptimizer they use the       *)
(*        shared constant qubits TRUE / FALSE)                               *)
(***************************************************************************)
EXTENDS Integers, Sequences, FiniteSets, TLC, Json

CONSTANTS MaxLen, MaxLive, Progs
VARIABLES live, hist

Pred1 == {1, 2, 10, 5 + 100}     \* single-argument predicates (105: never a program; keeps the set a set of ints)
Kind(p) == CASE p \in {1, 2, 10} -> "pred" [] p \in {3, 8, 9} -> "fun" [] p = 4 -> "caller" [] p \in {5, 6, 11, 12, 13, 15, 16, 17, 18} -> "bool2"
             [] p \in {7, 14} -> "param"

Obj(k, term) == [k |-> k, term |-> term]
T(op, args) == [op |-> op, args |-> args]
Idx == 1..Len(live)

Do(term, newkind) ==
  /\ hist' = Append(hist, term)
  /\ live' = IF newkind # "" /\ Len(live) < MaxLive THEN Append(live, Obj(newkind, term)) ELSE live

Compile == \E p \in Progs : Kind(p) # "caller" /\ \E opt \in {"default", "fast"} :
              (opt = "default" \/ p \in {1, 3, 17, 18}) /\ Do(T("compile", <<p, opt>>), Kind(p))
CompileDefs == 4 \in Progs /\ \E d \in Idx : live[d].k = "fun" /\ Do(T("compile_defs", <<4, live[d].term>>), "fun")
Bind == \E u \in Idx : live[u].k = "param" /\ \E v \in {0, 3} : Do(T("bind", <<live[u].term, v>>), "fun")
Oraclize == \E f \in Idx : live[f].k = "fun" /\ \E e \in {1, 2} : Do(T("oraclize", <<live[f].term, e>>), "pred")
Grover == \E f \in Idx : live[f].k = "pred" /\ Do(T("grover", <<live[f].term>>), "")
GroverEl == \E f \in Idx : live[f].k = "fun" /\ Do(T("grover_el", <<live[f].term, 2>>), "")
DJ == \E f \in Idx : live[f].k = "pred" /\ Do(T("dj", <<live[f].term>>), "")
BV == \E f \in Idx : live[f].k = "pred" /\ Do(T("bv", <<live[f].term>>), "")
Simon == \E f \in Idx : live[f].k = "fun" /\ Do(T("simon", <<live[f].term>>), "")
Export == \E f \in Idx : live[f].k \in {"pred", "fun", "bool2"} /\ \E t \in {"qiskit", "qasm", "sympy"} : Do(T("export", <<live[f].term, t>>), "")
Decompile == \E f \in Idx : live[f].k \in {"pred", "fun", "bool2"} /\ Do(T("decompile", <<live[f].term>>), "")
TruthTable == \E f \in Idx : live[f].k \in {"pred", "fun", "bool2"} /\ Do(T("truth_table", <<live[f].term>>), "")

Init == live = <<>> /\ hist = <<>>
Next == /\ Len(hist) < MaxLen
        /\ (Compile \/ CompileDefs \/ Bind \/ Oraclize \/ Grover \/ GroverEl \/ DJ \/ BV \/ Simon \/ Export \/ Decompile \/ TruthTable)
Spec == Init /\ [][Next]_<<live, hist>>
Emit == Len(hist) >= 1 => PrintT(<<"S", ToJson(hist)>>)
=============================================================================

------------------------------ MODULE AstPasses ------------------------------
(***************************************************************************)
(* Refinement layer: the ast2ast passes that are transcribed as written     *)
(* (the others are bound as meaning-preserving state transformers only,     *)
(* spec/Trace_Passes.tla).  Nodes are the JSON form of Python's ast (the    *)
(* vocabulary of PySem / AstLib).                                           *)
(*                                                                         *)
(*   ReplaceMultiTargetAssign.visit_Assign  ->  Rmta                        *)
(*     a, b = t            (value is a Name)   a = t[0]; b = t[1]           *)
(*     a, b = e1, e2       (anything else)     _temptup = (e1, e2);         *)
(*                                             a = _temptup[0]; b = ...     *)
(*     an assignment with one plain target is left alone; a NodeTransformer *)
(*     reaches the assignments in the bodies of if / for / inner def        *)
(*     statements, at any depth                                             *)
(***************************************************************************)
EXTENDS AstLib, SequencesExt

RECURSIVE RmtaStmts(_)
RECURSIVE RmtaStmt(_)
HasElts(n) == n.T \in {"Tuple", "List"}
RmtaStmt(s) ==
  CASE s.T = "Assign" /\ Len(s.targets) = 1 /\ HasElts(s.targets[1]) ->
         LET tg == s.targets[1].elts
             one(i, v) == Assign(tg[i].id, Sub(v, CI(i - 1)))
         IN IF s.value.T = "Name" THEN [i \in 1..Len(tg) |-> one(i, s.value)]
            ELSE <<Assign("_temptup", s.value)>> \o [i \in 1..Len(tg) |-> one(i, Name("_temptup"))]
    [] s.T \in {"If", "For"} -> <<[s EXCEPT !.body = RmtaStmts(s.body), !.orelse = RmtaStmts(s.orelse)]>>
    [] s.T = "FunctionDef" -> <<[s EXCEPT !.body = RmtaStmts(s.body)]>>
    [] OTHER -> <<s>>
RmtaStmts(ss) == IF Len(ss) = 0 THEN <<>> ELSE RmtaStmt(ss[1]) \o RmtaStmts(Tail(ss))

RECURSIVE HasMulti(_)
HasMulti(ss) == \E j \in 1..Len(ss) :
   LET s == ss[j] IN
   \/ s.T = "Assign" /\ Len(s.targets) = 1 /\ HasElts(s.targets[1])
   \/ s.T \in {"If", "For"} /\ (HasMulti(s.body) \/ HasMulti(s.orelse))
   \/ s.T = "FunctionDef" /\ HasMulti(s.body)
=============================================================================

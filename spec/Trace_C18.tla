------------------------------ MODULE Trace_C18 ------------------------------
(***************************************************************************)
(* C18: the quadratic model built for a function has the function's         *)
(* minimisers as ground states.  The harness records the TREE of model      *)
(* building calls the library makes (logic gates Not/And/Or/Xor over        *)
(* Binary variables, sums, and the *Const penalty terms); this module       *)
(* defines the polynomial each node denotes and evaluates the energy on     *)
(* EVERY assignment of inputs and auxiliaries.                              *)
(*                                                                         *)
(* case: inputs, rets, exprs (the function), trees (format -> tree), exc,   *)
(*   samples = << [vals (input bit name -> 0/1 for the bits present),       *)
(*                 decoded (argument name -> value)] >>, args (name, type,  *)
(*   bits per argument)                                                     *)
(***************************************************************************)
EXTENDS BoolSem, Codec, TLC, Json, IOUtils

Cases == JsonDeserialize(IOEnv.CASES)
VARIABLE i

MinOf(S) == CHOOSE x \in S : \A y \in S : x <= y

RECURSIVE Vars(_)
Vars(t) ==
  CASE t.k = "bin" -> {t.n}
    [] t.k = "const" -> {}
    [] t.k = "not" -> Vars(t.a)
    [] t.k \in {"and", "or", "xor", "notconst"} -> Vars(t.a) \cup Vars(t.b)
    [] t.k \in {"andconst", "orconst", "xorconst"} -> Vars(t.a) \cup Vars(t.b) \cup Vars(t.c)
    [] t.k = "add" -> UNION {Vars(t.terms[j]) : j \in 1..Len(t.terms)}

\* polynomial value under assignment s (function name -> 0/1).  Logic gates as documented by pyqubo:
\* Not 1-a, And ab, Or a+b-ab, Xor a+b-2ab; penalties NotConst 2ab-a-b+1, AndConst ab-2(a+b)c+3c,
\* OrConst ab+(a+b)(1-2c)+c.  XorConst needs an auxiliary bit that the recorded tree does not name.
RECURSIVE E(_, _)
E(t, s) ==
  CASE t.k = "bin" -> s[t.n]
    [] t.k = "const" -> t.v
    [] t.k = "not" -> 1 - E(t.a, s)
    [] t.k = "and" -> E(t.a, s) * E(t.b, s)
    [] t.k = "or" -> E(t.a, s) + E(t.b, s) - E(t.a, s) * E(t.b, s)
    [] t.k = "xor" -> E(t.a, s) + E(t.b, s) - 2 * E(t.a, s) * E(t.b, s)
    [] t.k = "add" -> LET RECURSIVE F(_) F(j) == IF j > Len(t.terms) THEN 0 ELSE E(t.terms[j], s) + F(j + 1) IN F(1)
    [] t.k = "notconst" -> 2 * E(t.a, s) * E(t.b, s) - E(t.a, s) - E(t.b, s) + 1
    [] t.k = "andconst" -> E(t.a, s) * E(t.b, s) - 2 * (E(t.a, s) + E(t.b, s)) * E(t.c, s) + 3 * E(t.c, s)
    [] t.k = "orconst" -> E(t.a, s) * E(t.b, s) + (E(t.a, s) + E(t.b, s)) * (1 - 2 * E(t.c, s)) + E(t.c, s)

RECURSIVE HasKind(_, _)
HasKind(t, K) ==
  t.k \in K \/ (CASE t.k \in {"bin", "const"} -> FALSE
                  [] t.k = "not" -> HasKind(t.a, K)
                  [] t.k \in {"and", "or", "xor", "notconst"} -> HasKind(t.a, K) \/ HasKind(t.b, K)
                  [] t.k \in {"andconst", "orconst", "xorconst"} -> HasKind(t.a, K) \/ HasKind(t.b, K) \/ HasKind(t.c, K)
                  [] t.k = "add" -> \E j \in 1..Len(t.terms) : HasKind(t.terms[j], K))

SetToSeq(S) == LET RECURSIVE F(_) F(T) == IF T = {} THEN <<>> ELSE LET x == CHOOSE x \in T : TRUE IN <<x>> \o F(T \ {x}) IN F(S)

Verdict(c) ==
  IF c.exc # "" THEN <<"fail", "to_bqm-raised", 0>>
  ELSE IF \E f \in DOMAIN c.trees : c.trees[f] # c.trees.bqm THEN <<"fail", "formats-built-from-different-models", 0>>
  ELSE
  LET t == c.trees.bqm
      n == Len(c.inputs)
      U == Rows(n)
      ins == {c.inputs[k] : k \in 1..n}
      live == Live(c.exprs, {c.rets[b] : b \in 1..Len(c.rets)})
  IN
  IF HasKind(t, {"xorconst"}) THEN <<"skip", "xorconst-needs-undeclared-auxiliary", 0>>
  ELSE IF Unbound(live, c.inputs) # {} THEN <<"skip", "function-not-closed", 0>>
  ELSE
  LET env == SemList(live, c.inputs, U)
      ntrue(r) == Cardinality({b \in 1..Len(c.rets) : r \in env[c.rets[b]]})
      aux == SetToSeq(Vars(t) \ ins)
      foreign == (Vars(t) \ ins) \ {c.rets[b] : b \in 1..Len(c.rets)}
      \* assignment for input row r and auxiliary pattern a
      Asg(r, a) == [v \in Vars(t) \cup ins |->
                      IF v \in ins THEN (IF BitOf(r, (CHOOSE k \in 1..n : c.inputs[k] = v) - 1) THEN 1 ELSE 0)
                      ELSE (IF BitOf(a, (CHOOSE k \in 1..Len(aux) : aux[k] = v) - 1) THEN 1 ELSE 0)]
      Emin(r) == MinOf({E(t, Asg(r, a)) : a \in Rows(Len(aux))})
      emin == [r \in U |-> Emin(r)]
      gmin == MinOf({emin[r] : r \in U})
      ground == {r \in U : emin[r] = gmin}
      fewest == MinOf({ntrue(r) : r \in U})
      want == {r \in U : ntrue(r) = fewest}
      dep(k) == \E r \in U : ~BitOf(r, k - 1) /\ \E b \in 1..Len(c.rets) : (r \in env[c.rets[b]]) # ((r + Pow2(k - 1)) \in env[c.rets[b]])
  IN IF foreign # {} THEN <<"fail", "foreign-variable-in-model", 0>>
     ELSE IF Len(aux) > 6 THEN <<"skip", "too-many-auxiliaries", Len(aux)>>
     ELSE IF \E k \in 1..n : dep(k) /\ c.inputs[k] \notin Vars(t) THEN <<"fail", "argument-bit-the-function-depends-on-is-missing", 0>>
     ELSE IF ground # want THEN <<"fail", "ground-states-are-not-the-minimisers", MinOf(SD(ground, want))>>
     ELSE IF fewest = 0 /\ gmin # 0 THEN <<"fail", "zeros-of-the-function-not-at-energy-zero", gmin>>
     ELSE
     \* decode_samples: every decoded argument agrees with the sample on the bits the sample contains
     LET badS == {j \in 1..Len(c.samples) :
                   \E a \in 1..Len(c.args) :
                      LET A == c.args[a]
                          enc == Enc(A.type, c.samples[j].decoded[A.name])
                      IN \E k \in 1..Len(A.bits) : A.bits[k] \in DOMAIN c.samples[j].vals /\ (c.samples[j].vals[A.bits[k]] = 1) # enc[k]}
     IN IF badS # {} THEN <<"fail", "decode_samples-disagrees-with-the-sample", MinOf(badS) - 1>>
        ELSE <<"ok", "", Cardinality(U) * Cardinality(Rows(Len(aux)))>>

Init == i = 1
Next == /\ i <= Len(Cases)
        /\ PrintT(<<"V", Cases[i].id, Verdict(Cases[i])>>)
        /\ i' = i + 1
Spec == Init /\ [][Next]_i
=============================================================================

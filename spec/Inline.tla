------------------------------- MODULE Inline -------------------------------
(***************************************************************************)
(* Refinement layer: calling a compiled function from another one           *)
(* (qlasskit/ast2logic/env.py:bind_function and the "Known function" branch  *)
(* of t_expression.py), as written.                                        *)
(*                                                                         *)
(*  BindFunction  every symbol of the callee's expression list (defined     *)
(*                names and free symbols alike) is renamed  <callee>$<name>  *)
(*                ("$" cannot occur in a Python identifier); the list is    *)
(*                then COMPRESSED to its last nret expressions by inlining  *)
(*                the definitions one by one, each inlining simultaneous    *)
(*                (xreplace)                                                *)
(*  Call          the bits of every actual argument replace the bits of the *)
(*                formal, by position; the result is the list of the        *)
(*                compressed return expressions                             *)
(* Expressions are sympy-canonical N-forms (BoolOpt), so the predicted      *)
(* result is compared structurally with the library's.                      *)
(***************************************************************************)
EXTENDS BoolOpt

Pfx(g, n) == g \o "$" \o n
\* rename all symbols of an N-form
RECURSIVE Ren(_, _)
Ren(e, g) ==
  CASE e.op = "sym" -> NSym(Pfx(g, e.n))
    [] e.op \in {"true", "false"} -> e
    [] e.op \in {"and", "or", "xor"} -> N0(e.op, "", {Ren(x, g) : x \in e.as}, <<>>)
    [] OTHER -> N0(e.op, "", {}, [j \in DOMAIN e.q |-> Ren(e.q[j], g)])
\* cexprs: the callee's expression list <<name, N-form>>;  formals: per argument, the sequence of its bit names
BindFunction(g, formals, cexprs, nret) ==
  LET ren == [k \in DOMAIN cexprs |-> <<Pfx(g, cexprs[k][1]), Ren(cexprs[k][2], g)>>]
      RECURSIVE C(_, _)
      C(k, d) == IF k > Len(ren) THEN <<>>
                 ELSE LET ne == Subst(ren[k][2], d) IN <<<<ren[k][1], ne>>>> \o C(k + 1, MapSet(d, ren[k][1], ne))
      all == C(1, Empty)
  IN [formals |-> [a \in DOMAIN formals |-> [j \in DOMAIN formals[a] |-> Pfx(g, formals[a][j])]],
      exprs |-> SubSeq(all, Len(all) - nret + 1, Len(all))]
\* actuals: per argument, the sequence of its bit expressions (N-forms)
ArityOK(def, actuals) == Len(actuals) = Len(def.formals) /\ \A a \in DOMAIN actuals : Len(actuals[a]) = Len(def.formals[a])
Call(def, actuals) ==
  LET pairs == UNION {{<<a, j>> : j \in DOMAIN actuals[a]} : a \in DOMAIN actuals}
      m == [n \in {def.formals[p[1]][p[2]] : p \in pairs} |->
              LET p == CHOOSE q \in pairs : def.formals[q[1]][q[2]] = n IN actuals[p[1]][p[2]]]
  IN [k \in DOMAIN def.exprs |-> Subst(def.exprs[k][2], m)]
=============================================================================

------------------------------ MODULE BoolOpt ------------------------------
(***************************************************************************)
(* Refinement layer: the boolean optimizer (qlasskit/boolopt) as written.   *)
(*                                                                         *)
(* The rewrite steps work on sympy expression objects, and sympy's          *)
(* constructors canonicalise what they build (And/Or flatten, drop the      *)
(* neutral constant, are absorbed by the other one and drop duplicates;     *)
(* Xor flattens, cancels equal arguments in pairs and turns a True argument  *)
(* into an outer Not; Not folds constants and double negation; ITE and      *)
(* Implies fold the constant / equal-argument cases).  The model therefore  *)
(* works on a NORMAL FORM (N-form) in which And/Or/Xor carry their          *)
(* arguments as a SET, built only through the constructors Mk* below, which *)
(* transcribe those canonicalisations.  Argument ORDER is sympy's private   *)
(* sort key and is not modelled: the one rule whose match is positional     *)
(* (or -> xnor) is modelled as a relation with every outcome some argument  *)
(* order can give.  Vis(step, e) is the set of possible results.            *)
(*                                                                         *)
(* merge_expressions and apply_cse call into sympy (simplify_logic, cse):   *)
(* they are specified by the RELATION their result must satisfy (MergeRel,  *)
(* CseRel), with a deterministic reference instance for model checking.     *)
(***************************************************************************)
EXTENDS BoolSem

N0(o, s, S, Q) == [op |-> o, n |-> s, as |-> S, q |-> Q]
NSym(s)   == N0("sym", s, {}, <<>>)
NTrue     == N0("true", "", {}, <<>>)
NFalse    == N0("false", "", {}, <<>>)
NSet(o, S) == N0(o, "", S, <<>>)
NSeq(o, Q) == N0(o, "", {}, Q)
IsLeaf(e) == e.op \in {"sym", "true", "false"}
IsSetOp(e) == e.op \in {"and", "or", "xor"}
One(S) == CHOOSE x \in S : TRUE
RECURSIVE SetToSeq(_)
SetToSeq(S) == IF S = {} THEN <<>> ELSE LET x == One(S) IN <<x>> \o SetToSeq(S \ {x})

(***************************************************************************)
(* sympy's constructors                                                    *)
(***************************************************************************)
MkNot(x) == IF x.op = "true" THEN NFalse
            ELSE IF x.op = "false" THEN NTrue
            ELSE IF x.op = "not" THEN x.q[1]
            ELSE NSeq("not", <<x>>)
Flat(o, S) == UNION {IF x.op = o THEN x.as ELSE {x} : x \in S}
MkLattice(o, S, neutral, absorbing) ==
  LET F == Flat(o, S) \ {neutral} IN
  IF absorbing \in F THEN absorbing
  ELSE IF F = {} THEN neutral
  ELSE IF Cardinality(F) = 1 THEN One(F)
  ELSE NSet(o, F)
MkAnd(S) == MkLattice("and", S, NTrue, NFalse)
MkOr(S)  == MkLattice("or", S, NFalse, NTrue)
\* Xor takes a BAG (sequence): equal arguments cancel in pairs, nested Xor arguments are spliced in
MkXor(Q) ==
  LET cands == {Q[j] : j \in {k \in DOMAIN Q : Q[k].op # "xor"}} \cup UNION {Q[j].as : j \in {k \in DOMAIN Q : Q[k].op = "xor"}}
      count(x) == Cardinality({j \in DOMAIN Q : Q[j] = x}) + Cardinality({j \in DOMAIN Q : Q[j].op = "xor" /\ x \in Q[j].as})
      odd == {x \in cands : count(x) % 2 = 1}
      core == odd \ {NTrue, NFalse}
      base == IF core = {} THEN NFalse ELSE IF Cardinality(core) = 1 THEN One(core) ELSE NSet("xor", core)
  IN IF NTrue \in odd THEN MkNot(base) ELSE base
MkIte(c, a, b) ==
  IF c.op = "true" THEN a
  ELSE IF c.op = "false" THEN b
  ELSE IF a = b THEN a
  ELSE IF a.op = "true" /\ b.op = "false" THEN c
  ELSE IF a.op = "false" /\ b.op = "true" THEN MkNot(c)
  ELSE NSeq("ite", <<c, a, b>>)
MkImplies(a, b) ==
  IF a.op \in {"true", "false"} \/ b.op \in {"true", "false"} THEN MkOr({MkNot(a), b})
  ELSE IF a = b THEN NTrue
  ELSE NSeq("implies", <<a, b>>)

\* BoolSem tree (sequence arguments, as serialised from the library or generated) -> N-form
RECURSIVE CanonE(_)
CanonE(e) ==
  CASE e.op = "sym" -> NSym(e.n)
    [] e.op = "true" -> NTrue
    [] e.op = "false" -> NFalse
    [] e.op = "not" -> MkNot(CanonE(e.args[1]))
    [] e.op = "and" -> MkAnd({CanonE(e.args[j]) : j \in DOMAIN e.args})
    [] e.op = "or" -> MkOr({CanonE(e.args[j]) : j \in DOMAIN e.args})
    [] e.op = "xor" -> MkXor([j \in DOMAIN e.args |-> CanonE(e.args[j])])
    [] e.op = "ite" -> MkIte(CanonE(e.args[1]), CanonE(e.args[2]), CanonE(e.args[3]))
    [] e.op = "implies" -> MkImplies(CanonE(e.args[1]), CanonE(e.args[2]))

\* meaning of an N-form (row sets, as BoolSem.Sem)
RECURSIVE SemN(_, _, _)
SemN(e, env, U) ==
  CASE e.op = "sym" -> env[e.n]
    [] e.op = "true" -> U
    [] e.op = "false" -> {}
    [] e.op = "not" -> U \ SemN(e.q[1], env, U)
    [] e.op = "and" -> LET RECURSIVE F(_) F(S) == IF S = {} THEN U ELSE LET x == One(S) IN SemN(x, env, U) \cap F(S \ {x}) IN F(e.as)
    [] e.op = "or" -> UNION {SemN(x, env, U) : x \in e.as}
    [] e.op = "xor" -> LET RECURSIVE F(_) F(S) == IF S = {} THEN {} ELSE LET x == One(S) IN SD(SemN(x, env, U), F(S \ {x})) IN F(e.as)
    [] e.op = "ite" -> LET c == SemN(e.q[1], env, U) IN (c \cap SemN(e.q[2], env, U)) \cup ((U \ c) \cap SemN(e.q[3], env, U))
    [] e.op = "implies" -> (U \ SemN(e.q[1], env, U)) \cup SemN(e.q[2], env, U)

RECURSIVE Nodes(_)
Nodes(e) == {e} \cup (IF IsLeaf(e) THEN {} ELSE IF IsSetOp(e) THEN UNION {Nodes(x) : x \in e.as}
                      ELSE UNION {Nodes(e.q[j]) : j \in DOMAIN e.q})
FreeN(e) == {x.n : x \in {y \in Nodes(e) : y.op = "sym"}}


(***************************************************************************)
(* The pattern steps (exp_transformers.py) over the generic visitor         *)
(* (sympytransformer.py): visit dispatches on And, Or, Not, Implies, ITE,    *)
(* Xor and returns anything else unchanged.                                 *)
(***************************************************************************)
Steps == {"remove_ITE", "remove_Implies", "transform_or2xor", "transform_or2and", "remove_obvious_expr"}

\* one outcome per element / position, all combinations
RECURSIVE Prod(_, _)
Prod(outs, k) == IF k = 0 THEN {<<>>} ELSE {Append(p, x) : p \in Prod(outs, k - 1), x \in outs[k]}
SeqPicks(Q, outs) == Prod(outs, Len(Q))

\* the literal pairs of two binary conjunctions match the xnor rule under some argument order
XnorMatch(X, Y) ==
  /\ X.op = "and" /\ Y.op = "and" /\ Cardinality(X.as) = 2 /\ Cardinality(Y.as) = 2
  /\ Y.as = {MkNot(p) : p \in X.as}
ObviousPair(S) == Cardinality(S) = 2 /\ \E x \in S : x.op = "sym" /\ MkNot(x) \in S

RECURSIVE Vis(_, _)
Vis(st, e) ==
  IF IsLeaf(e) THEN {e}
  ELSE
  LET kidsQ == IF IsSetOp(e) THEN SetToSeq(e.as) ELSE e.q
      outs == [j \in DOMAIN kidsQ |-> Vis(st, kidsQ[j])]
      picks == SeqPicks(kidsQ, outs)
      base == CASE e.op = "and" -> {MkAnd({g[j] : j \in DOMAIN kidsQ}) : g \in picks}
                [] e.op = "or" -> {MkOr({g[j] : j \in DOMAIN kidsQ}) : g \in picks}
                [] e.op = "xor" -> {MkXor(g) : g \in picks}
                [] e.op = "not" -> {MkNot(g[1]) : g \in picks}
                [] e.op = "ite" -> {MkIte(g[1], g[2], g[3]) : g \in picks}
                [] e.op = "implies" -> {MkImplies(g[1], g[2]) : g \in picks}
  IN
  CASE st = "remove_ITE" /\ e.op = "ite" ->
         \* c = visit(cond); visit(Or(And(c, visit(then)), And(Not(c), visit(else))))
         UNION {Vis(st, MkOr({MkAnd({g[1], g[2]}), MkAnd({MkNot(g[1]), g[3]})})) : g \in picks}
    [] st = "remove_Implies" /\ e.op = "implies" ->
         UNION {Vis(st, MkOr({MkNot(g[1]), g[2]})) : g \in picks}
    [] st = "transform_or2xor" /\ e.op = "or" ->
         \* Or(And(a,b), And(!a,!b)) = !Xor(a,b): the match compares the arguments position by position, so for a
         \* pair that matches as sets the rule fires or not depending on sympy's argument order; a, b are the
         \* (visited) literals of whichever conjunction comes first
         base \cup (IF Cardinality(e.as) = 2 /\ (\E X, Y \in e.as : X # Y /\ XnorMatch(X, Y))
                    THEN UNION {LET lit == SetToSeq(X.as) IN
                                {MkNot(MkXor(<<a, b>>)) : a \in Vis(st, lit[1]), b \in Vis(st, lit[2])} : X \in e.as}
                    ELSE {})
    [] st = "transform_or2and" /\ e.op = "or" /\ Cardinality(e.as) > 2 ->
         {MkNot(MkAnd({MkNot(g[j]) : j \in DOMAIN kidsQ})) : g \in picks}
    [] st = "remove_obvious_expr" /\ e.op = "not" -> {e}                    \* (double negation cannot occur in a sympy tree)
    [] st = "remove_obvious_expr" /\ e.op = "and" -> {IF ObviousPair(e.as) THEN NFalse ELSE e}     \* no recursion, as written
    [] st = "remove_obvious_expr" /\ e.op = "or" -> {IF ObviousPair(e.as) THEN NTrue ELSE e}
    [] OTHER -> base

\* what each step promises about the shape of its result (what later stages rely on)
HasOp(e, o) == \E x \in Nodes(e) : x.op = o
WideOr(e) == \E x \in Nodes(e) : x.op = "or" /\ Cardinality(x.as) > 2
Post(st, e) ==
  CASE st = "remove_ITE" -> ~HasOp(e, "ite")
    [] st = "remove_Implies" -> ~HasOp(e, "implies")
    [] st = "transform_or2and" -> ~WideOr(e)
    [] OTHER -> TRUE

FastSteps == <<"remove_ITE", "remove_Implies", "transform_or2xor", "transform_or2and", "remove_obvious_expr">>
\* all results of running steps k.. of the pattern pipeline on e
RECURSIVE Pipe(_, _)
Pipe(k, e) == IF k > Len(FastSteps) THEN {e} ELSE UNION {Pipe(k + 1, o) : o \in Vis(FastSteps[k], e)}
\* the synthesiser's input grammar
SynthReady(e) == ~HasOp(e, "ite") /\ ~HasOp(e, "implies") /\ ~WideOr(e)

(***************************************************************************)
(* Expression lists (sequences of <<name, tree>>), the list-level steps     *)
(***************************************************************************)
CanonList(L) == [k \in DOMAIN L |-> <<L[k][1], CanonE(L[k][2])>>]
Names(L) == [k \in DOMAIN L |-> L[k][1]]
\* (which names are return symbols -- the "_ret" prefix -- is told by the harness: TLC strings are atomic)

\* substitution of N-forms for symbols (xreplace), rebuilding through the constructors
RECURSIVE Subst(_, _)
Subst(e, m) ==
  CASE e.op = "sym" -> IF e.n \in DOMAIN m THEN m[e.n] ELSE e
    [] e.op \in {"true", "false"} -> e
    [] e.op = "not" -> MkNot(Subst(e.q[1], m))
    [] e.op = "and" -> MkAnd({Subst(x, m) : x \in e.as})
    [] e.op = "or" -> MkOr({Subst(x, m) : x \in e.as})
    [] e.op = "xor" -> LET Q == SetToSeq(e.as) IN MkXor([j \in DOMAIN Q |-> Subst(Q[j], m)])
    [] e.op = "ite" -> MkIte(Subst(e.q[1], m), Subst(e.q[2], m), Subst(e.q[3], m))
    [] e.op = "implies" -> MkImplies(Subst(e.q[1], m), Subst(e.q[2], m))
MapSet(m, n, v) == [x \in DOMAIN m \cup {n} |-> IF x = n THEN v ELSE m[x]]
Empty == [x \in {} |-> NTrue]

\* merge_expressions without its simplification: inline every non-return definition, keep the return ones
RECURSIVE MergeRef(_, _, _, _)
MergeRef(L, k, m, rets) ==
  IF k > Len(L) THEN <<>>
  ELSE LET e == Subst(L[k][2], m) IN
       IF L[k][1] \in rets THEN <<<<L[k][1], e>>>> \o MergeRef(L, k + 1, m, rets)
       ELSE MergeRef(L, k + 1, MapSet(m, L[k][1], e), rets)
\* what merge_expressions(pre) = post must satisfy (pre, post N-form lists; the simplifier may pick any equivalent form):
\* exactly the return definitions, in order; each over the inputs only and with the meaning of the inlined definition
MergeRel(pre, post, inputs, U, rets) ==
  LET ref == MergeRef(pre, 1, Empty, rets)
      env == InputEnv(inputs, U)
      ins == {inputs[k] : k \in DOMAIN inputs}
  IN IF Names(post) # Names(ref) THEN "merge:not-exactly-the-return-definitions-in-order"
     ELSE IF \E k \in DOMAIN post : ~(FreeN(post[k][2]) \subseteq ins) THEN "merge:result-mentions-a-non-input"
     ELSE IF \E k \in DOMAIN post : FreeN(ref[k][2]) \subseteq ins /\ SemN(post[k][2], env, U) # SemN(ref[k][2], env, U)
          THEN "merge:meaning-differs-from-inlined-definition"
     ELSE "conform"

\* apply_cse(pre) = post: post is  replacements ++ reduced, the reduced list carries pre's names in order, the
\* replacement symbols are new, each is defined once before its first use, and inlining the replacements
\* into the reduced expressions gives back pre's expressions (as N-forms)
CseRel(pre, post) ==
  LET nr == Len(post) - Len(pre) IN
  IF nr < 0 THEN "cse:definitions-lost"
  ELSE
  LET repl == SubSeq(post, 1, nr)
      red == SubSeq(post, nr + 1, Len(post))
      rn == {repl[k][1] : k \in DOMAIN repl}
      old == {pre[k][1] : k \in DOMAIN pre} \cup UNION {FreeN(pre[k][2]) : k \in DOMAIN pre}
      RECURSIVE Inl(_, _)
      Inl(k, m) == IF k > Len(repl) THEN m ELSE Inl(k + 1, MapSet(m, repl[k][1], Subst(repl[k][2], m)))
      m == Inl(1, Empty)
  IN IF Names(red) # Names(pre) THEN "cse:names-or-order-of-the-definitions-changed"
     ELSE IF rn \cap old # {} \/ Cardinality(rn) # nr THEN "cse:replacement-symbol-not-fresh"
     ELSE IF \E k \in DOMAIN repl : ~(FreeN(repl[k][2]) \cap rn \subseteq {repl[j][1] : j \in 1..(k - 1)})
          THEN "cse:replacement-used-before-its-definition"
     ELSE IF \E k \in DOMAIN red : Subst(red[k][2], m) # pre[k][2] THEN "cse:inlining-the-replacements-does-not-give-back-the-definition"
     ELSE "conform"

\* a pattern step on a list: names unchanged, every expression one of the modelled outcomes
StepRel(st, pre, post) ==
  IF Names(post) # Names(pre) THEN "step:names-changed"
  ELSE IF \E k \in DOMAIN pre : post[k][2] \notin Vis(st, pre[k][2]) THEN "step:result-is-not-an-outcome-of-the-rule-as-modelled"
  ELSE "conform"
=============================================================================

------------------------------- MODULE PatGen -------------------------------
(***************************************************************************)
(* Generator specification for the NEIGHBOURHOOD of the optimizer's pattern *)
(* rules: every initial state is one expression tree of a shape some        *)
(* rewrite rule matches or nearly matches                                   *)
(*   Or(And(l1,l2[,l3]), And(m1,m2[,m3]))   or -> xnor rule                 *)
(*   Or(l1,l2[,l3[,l4]]), And(..)           or -> nand-of-nots, trivial     *)
(*   And/Or of a literal and its negation   remove_obvious                  *)
(*   ITE / Implies with literal or compound arguments                       *)
(* over literals  a, b, c, ~a, ~b, ~c.  There are no transitions: TLC's     *)
(* enumeration of the initial states IS the exhaustive enumeration; Emit    *)
(* prints each.                                                            *)
(***************************************************************************)
EXTENDS Integers, Sequences, FiniteSets, TLC, Json

CONSTANT Family
VARIABLE e

Sym(s) == [op |-> "sym", n |-> s]
Neg(x) == [op |-> "not", args |-> <<x>>]
Vars == {"a", "b", "c"}
Lits == {Sym(v) : v \in Vars} \cup {Neg(Sym(v)) : v \in Vars}
Op2(o, x, y) == [op |-> o, args |-> <<x, y>>]
Op3(o, x, y, z) == [op |-> o, args |-> <<x, y, z>>]

Conj2 == {Op2("and", x, y) : x, y \in Lits}
Signed(v, s) == IF s THEN Sym(v) ELSE Neg(Sym(v))
Conj3 == {Op3("and", Signed("a", s1), Signed("b", s2), Signed("c", s3)) : s1, s2, s3 \in BOOLEAN}
Perms == {<<"a","b","c">>, <<"a","c","b">>, <<"b","a","c">>, <<"b","c","a">>, <<"c","a","b">>, <<"c","b","a">>}
Conj3P == {Op3("and", Signed(p[1], s1), Signed(p[2], s2), Signed(p[3], s3)) : p \in Perms, s1, s2, s3 \in BOOLEAN}

Pats ==
  CASE Family = "or22" -> {Op2("or", x, y) : x, y \in Conj2}
    [] Family = "or33" -> {Op2("or", x, y) : x \in Conj3, y \in Conj3P}
    [] Family = "or23" -> {Op2("or", x, y) : x \in Conj2, y \in Conj3} \cup {Op2("or", y, x) : x \in Conj2, y \in Conj3}
    [] Family = "nary" -> {Op3(o, x, y, z) : o \in {"or", "and", "xor"}, x, y, z \in Lits}
                          \cup {[op |-> "or", args |-> <<x, y, z, Sym("d")>>] : x, y, z \in Lits}
    [] Family = "lit2" -> {Op2(o, x, y) : o \in {"or", "and", "xor", "implies"}, x, y \in Lits}
                          \cup {Neg(Op2(o, x, y)) : o \in {"or", "and", "xor"}, x, y \in Lits}
    [] Family = "ite"  -> {Op3("ite", x, y, z) : x, y, z \in Lits}
                          \cup {Op3("ite", Op2(o, x, y), z, Neg(z)) : o \in {"and", "or", "xor"}, x, y, z \in Lits}
                          \cup {Op3("ite", x, Op2(o, x, y), Op2(o, y, z)) : o \in {"and", "or", "implies"}, x, y, z \in Lits}
    [] Family = "nest" -> {Op2("or", Op2("and", x, Op2(o, y, z)), Op2("and", Neg(x), Neg(Op2(o, y, z)))) :
                              o \in {"or", "xor", "and"}, x, y, z \in Lits}
                          \cup {Op2("or", Op2("and", x, y), Neg(Op2("or", x, y))) : x, y \in Lits}
                          \cup {Op2("implies", Op2(o, x, y), Op2("implies", y, z)) : o \in {"or", "and"}, x, y, z \in Lits}

Init == e \in Pats
Next == FALSE /\ e' = e
Spec == Init /\ [][Next]_e
Emit == PrintT(<<"E", ToJson(e)>>)
=============================================================================

----------------------------- MODULE Trace_C01 -----------------------------
(***************************************************************************)
(* C01 (and the value clauses of C05/C07/C08): the boolean expressions the  *)
(* library derived for a program mean what the Python source means.         *)
(*                                                                         *)
(* case fields: id, def (FunctionDef node of the ORIGINAL source, decorated *)
(*   by the harness with type descriptors parsed from the annotations),     *)
(*   fns (record: name -> FunctionDef of functions passed as defs=),        *)
(*   params (record: parameter name -> constant node), inputs / rets (the   *)
(*   names of the argument / return bits the library reports), exprs (the   *)
(*   expression list the library reports), argbits (per non-parameter       *)
(*   argument: the bit names the library reports for it)                    *)
(* For every input row TLC runs the reference interpreter (PySem) on the    *)
(* decoded argument values and compares, under the det rule, the encoding   *)
(* of the result with the bits the expression list assigns.                 *)
(***************************************************************************)
EXTENDS PySem, BoolSem, Json, IOUtils

Cases == JsonDeserialize(IOEnv.CASES)
VARIABLE i

MinOf(S) == CHOOSE x \in S : \A y \in S : x <= y

RowVerdict(c, env, r) ==
  LET x == RunRow(c.def, c.fns, r, c.params) IN
  IF x.st = "unmod" THEN [k |-> "unmod", why |-> x.why, bit |-> 0, trig |-> {}, n |-> 0]
  ELSE IF x.st = "undef" THEN [k |-> "undef", why |-> x.why, bit |-> 0, trig |-> {}, n |-> 0]
  ELSE LET exp  == Enc(c.def.rdesc, Reduce(x))
           mask == DetMask(x)
           bad  == {b \in 1..Len(exp) : mask[b] /\ (exp[b] # (r \in env[c.rets[b]]))}
           n    == Cardinality({b \in 1..Len(exp) : mask[b]})
       IN IF bad = {} THEN [k |-> "ok", why |-> "", bit |-> 0, trig |-> AllTrig(x), n |-> n]
          ELSE [k |-> "bad", why |-> "", bit |-> MinOf(bad) - 1, trig |-> AllTrig(x), n |-> n]

Verdict(c) ==
  LET nin == NumInputBits(c.def)
      U == Rows(nin)
  IN
  \* frame clauses of C07 / C08 (present only in their cases): the callee / the unbound object has the
  \* same observable state after the operation, and binding the same values again gives the same list
  IF "fpb" \in DOMAIN c /\ c.fpb # c.fpa THEN <<"fail", "operand-object-modified", 0, 0, {}, {}>>
  ELSE IF "again" \in DOMAIN c /\ c.again # c.exprs THEN <<"fail", "rebinding-same-values-differs", 0, 0, {}, {}>>
  ELSE IF nin # Len(c.inputs) THEN <<"fail", "signature-input-bits", nin, Len(c.inputs), {}, {}>>
  ELSE IF Width(c.def.rdesc) # Len(c.rets) THEN <<"fail", "signature-return-bits", Width(c.def.rdesc), Len(c.rets), {}, {}>>
  ELSE IF Unbound(Live(c.exprs, {c.rets[b] : b \in 1..Len(c.rets)}), c.inputs) # {}
       THEN <<"fail", "return-bit-depends-on-free-symbol", 0, 0, {},
              {CHOOSE s \in Unbound(Live(c.exprs, {c.rets[b] : b \in 1..Len(c.rets)}), c.inputs) : TRUE}>>
  ELSE
  LET env == SemList(Live(c.exprs, {c.rets[b] : b \in 1..Len(c.rets)}), c.inputs, U)
  IN IF \E b \in 1..Len(c.rets) : c.rets[b] \notin DOMAIN env THEN <<"fail", "return-bit-not-defined", 0, 0, {}, {}>>
  ELSE
  LET first == RowVerdict(c, env, 0) IN
  IF first.k = "unmod" THEN <<"skip", first.why, 0, 0, {}, {}>>
  ELSE
  LET res == {<<r, RowVerdict(c, env, r)>> : r \in U}
      unm == {p \in res : p[2].k = "unmod"}
      bad == {p \in res : p[2].k = "bad"}
      okr == {p \in res : p[2].k = "ok"}
      nund == Cardinality({p \in res : p[2].k = "undef"})
      bits == LET RECURSIVE Sum(_) Sum(S) == IF S = {} THEN 0 ELSE LET p == CHOOSE p \in S : TRUE IN p[2].n + Sum(S \ {p})
              IN Sum(okr)
  IN IF unm # {} THEN <<"skip", (CHOOSE p \in unm : TRUE)[2].why, 0, 0, {}, {}>>
     ELSE IF bad = {} THEN <<"ok", "", Cardinality(okr), bits, UNION {p[2].trig : p \in okr}, nund>>
     ELSE LET r0 == MinOf({p[1] : p \in bad})
              p0 == CHOOSE p \in bad : p[1] = r0
          IN <<"fail", "value-differs-from-python-meaning", r0, p0[2].bit, {p[2].trig : p \in bad}, Cardinality(bad)>>

Init == i = 1
Next == /\ i <= Len(Cases)
        /\ PrintT(<<"V", Cases[i].id, Verdict(Cases[i])>>)
        /\ i' = i + 1
Spec == Init /\ [][Next]_i
=============================================================================

------------------------------- MODULE AlgoGen -------------------------------
(***************************************************************************)
(* Generator specification for C15 / C16: every initial state is one        *)
(* function (JSON ast) to wrap in Grover / Deutsch-Jozsa / Bernstein-       *)
(* Vazirani / Simon, in one of several syntactic forms:                     *)
(*   grover: all marked sets of size 1..MaxM over NB bits, written as a     *)
(*           disjunction of equalities, a DNF over bits, a constant-list    *)
(*           lookup, a predicate on a tuple of bools, or a function g with  *)
(*           a target value (searching g(x) == y)                           *)
(*   dj:     all constant and all balanced truth tables on NB bits          *)
(*   bv:     all secrets on NB bits (inner-product functions)               *)
(*   simon:  all periods on NB bits, two-to-one lookups                     *)
(***************************************************************************)
EXTENDS AstLib, FiniteSets, FiniteSetsExt, TLC, Json

CONSTANTS Kind, NB, MaxM
VARIABLE f

N == 2^NB
Vals == 0..(N - 1)
BitOf(v, j) == (v \div 2^j) % 2 = 1
TX == IF NB = 1 THEN TBool ELSE TInt(NB)
X == Name("x")
OrAll(es) == IF Len(es) = 1 THEN es[1] ELSE BoolOpN("Or", es)
AndAll(es) == IF Len(es) = 1 THEN es[1] ELSE BoolOpN("And", es)
SetSeq(S) == LET RECURSIVE F(_) F(T) == IF T = {} THEN <<>> ELSE LET m == CHOOSE m \in T : \A y \in T : m <= y IN <<m>> \o F(T \ {m}) IN F(S)
BitLit(v, j) == IF NB = 1 THEN (IF BitOf(v, j) THEN X ELSE Un("Not", X))
                ELSE (IF BitOf(v, j) THEN Sub(X, CI(j)) ELSE Un("Not", Sub(X, CI(j))))
Minterm(v) == AndAll([j \in 1..NB |-> BitLit(v, j - 1)])
TupLit(v, j) == IF BitOf(v, j) THEN Sub(Name("t"), CI(j)) ELSE Un("Not", Sub(Name("t"), CI(j)))
Xor2(a, b) == LET RECURSIVE G(_) G(j) == IF j = NB THEN 0 ELSE (IF BitOf(a, j) # BitOf(b, j) THEN 2^j ELSE 0) + G(j + 1) IN G(0)

Pred(name, body) == FunDef(name, <<Arg("x", TX)>>, <<Ret(body)>>, TBool)
FormEq(S) == Pred("f", OrAll([j \in 1..Cardinality(S) |-> Cmp("Eq", X, CI(SetSeq(S)[j]))]))
FormBits(S) == Pred("f", IF S = {} THEN CB(FALSE) ELSE IF S = Vals THEN CB(TRUE) ELSE OrAll([j \in 1..Cardinality(S) |-> Minterm(SetSeq(S)[j])]))
FormLookup(S) == Pred("f", Sub([T |-> "Tuple", elts |-> [v \in 1..N |-> CB((v - 1) \in S)]], X))
FormTuple(S) == FunDef("f", <<Arg("t", TList(TBool, NB))>>,
                       <<Ret(OrAll([j \in 1..Cardinality(S) |-> AndAll([b \in 1..NB |-> TupLit(SetSeq(S)[j], b - 1)])]))>>, TBool)

\* two comparisons that share an arithmetic sub-expression (a borrow / carry chain: nested common sub-expressions)
FormArith(S, op) == LET q == SetSeq(S) IN
  Pred("f", OrAll([j \in 1..Cardinality(S) |-> Cmp("Eq", Bin(op, X, CI(1)), CI(IF op = "Sub" THEN q[j] - 1 ELSE q[j] + 1))]))
Sets(maxm) == UNION {kSubset(k, Vals) : k \in 1..maxm}

Grover(u) ==
  {[kind |-> "grover", n |-> NB, form |-> "eq", def |-> FormEq(S), nmatch |-> Cardinality(S)] : S \in Sets(MaxM)}
  \cup {[kind |-> "grover", n |-> NB, form |-> "bits", def |-> FormBits(S), nmatch |-> Cardinality(S)] : S \in Sets(MaxM)}
  \cup {[kind |-> "grover", n |-> NB, form |-> "lookup", def |-> FormLookup(S), nmatch |-> Cardinality(S)] : S \in Sets(MaxM)}
  \cup {[kind |-> "grover", n |-> NB, form |-> "tuple", def |-> FormTuple(S), nmatch |-> Cardinality(S)] : S \in Sets(MaxM)}
  \cup (IF NB >= 3 THEN {[kind |-> "grover", n |-> NB, form |-> "arith", def |-> FormArith(S, "Sub"), nmatch |-> Cardinality(S)] :
                            S \in {T \in Sets(MaxM) : Cardinality(T) = 2 /\ 0 \notin T}}
                        \cup {[kind |-> "grover", n |-> NB, form |-> "arith", def |-> FormArith(S, "Add"), nmatch |-> Cardinality(S)] :
                            S \in {T \in Sets(MaxM) : Cardinality(T) = 2 /\ (N - 1) \notin T}} ELSE {})
  \* g(x) = x ^ c searched for y (one solution), g(x) = x & m searched for y (several)
  \cup {[kind |-> "grover", n |-> NB, form |-> "element", nmatch |-> 1, element |-> y,
         def |-> FunDef("g", <<Arg("x", TX)>>, <<Ret(Bin("BitXor", X, CI(c)))>>, TX)] : c \in {1, N - 1}, y \in {0, 1, N - 2}}
  \cup {[kind |-> "grover", n |-> NB, form |-> "element", nmatch |-> Cardinality({v \in Vals : v % 4 = y}), element |-> y,
         def |-> FunDef("g", <<Arg("x", TX)>>, <<Ret(Bin("BitAnd", X, CI(3)))>>, TX)] : y \in {1, 2}}

Balanced(u) == {S \in SUBSET Vals : 2 * Cardinality(S) = N}
DJ(u) == {[kind |-> "dj", n |-> NB, form |-> fm, def |-> (IF fm = "bits" THEN FormBits(S) ELSE FormLookup(S))] :
         S \in Balanced(u) \cup {{}, Vals}, fm \in (IF NB = 1 THEN {"bits"} ELSE {"bits", "lookup"})}
         \* the argument as a list of bools (the decoded all-zero outcome is then a tuple, not the number 0)
         \cup (IF NB = 1 THEN {} ELSE {[kind |-> "dj", n |-> NB, form |-> "tuple", def |-> FormTuple(S)] : S \in Balanced(u) \cup {Vals}})

\* the argument is ASSIGNED AGAIN in the body (x = x ^ c: a bijection, so the class of the function is kept) and the function is
\* compiled with fastOptimizer (opt = "fast"): the argument's name then moves to another qubit of the oracle
Reassign(d, c) == [d EXCEPT !.body = <<Assign("x", Bin("BitXor", X, CI(c)))>> \o d.body]
DJ2(u) == IF NB = 1 THEN {} ELSE
          {[kind |-> "dj", n |-> NB, form |-> "reassign", opt |-> "fast", def |-> Reassign(FormBits(S), c)] : S \in Balanced(u) \cup {Vals}, c \in {1, N - 1}}
SetSeqBits(s) == LET js == SetSeq({j \in 0..(NB - 1) : BitOf(s, j)}) IN [k \in 1..Len(js) |-> Sub(X, CI(js[k]))]
XorAll(es) == LET RECURSIVE F(_) F(j) == IF j = Len(es) THEN es[j] ELSE Bin("BitXor", es[j], F(j + 1)) IN F(1)
BV(u) == {[kind |-> "bv", n |-> NB, form |-> fm, secret |-> s,
        def |-> Pred("f", IF s = 0 THEN CB(FALSE)
                          ELSE XorAll(SetSeqBits(s)))] : s \in Vals, fm \in {"hand", "secret_oracle"}}

\* two-to-one lookups with period s: x |-> min(x, x xor s)  and  x |-> rank of the coset
Rank(x, s) == Cardinality({y \in Vals : y < (IF x < Xor2(x, s) THEN x ELSE Xor2(x, s)) /\ y < Xor2(y, s)})
Simon(u) == {[kind |-> "simon", n |-> NB, form |-> fm, period |-> s,
           def |-> FunDef("f", <<Arg("x", TX)>>,
                          <<Ret(Sub([T |-> "Tuple", elts |-> [v \in 1..N |-> CI(IF fm = "min" THEN (IF (v - 1) < Xor2(v - 1, s) THEN v - 1 ELSE Xor2(v - 1, s))
                                                                                ELSE Rank(v - 1, s))]], X))>>,
                          IF fm = "rank-narrow" THEN TInt(NB - 1) ELSE IF fm = "rank-wide" THEN TInt(NB + 1) ELSE TX)] :
            s \in Vals \ {0}, fm \in (IF NB >= 3 THEN {"min", "rank", "rank-narrow", "rank-wide"} ELSE {"min", "rank", "rank-wide"})}

Simon2(u) == {[r EXCEPT !.form = "reassign-" \o r.form, !.def = Reassign(r.def, c)] @@ [opt |-> "fast"] : r \in {q \in Simon(u) : q.form \in {"min", "rank"}}, c \in {1, N - 1}}
Pool == CASE Kind = "grover" -> Grover(0) [] Kind = "dj" -> DJ(0) \cup DJ2(0) [] Kind = "simon" -> Simon(0) \cup Simon2(0) [] Kind = "bv" -> BV(0)
Init == f \in Pool
Next == FALSE /\ f' = f
Spec == Init /\ [][Next]_f
Emit == PrintT(<<"A", ToJson(f)>>)
=============================================================================

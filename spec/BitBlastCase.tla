---------------------------- MODULE BitBlastCase ----------------------------
(***************************************************************************)
(* One application  l OP r  of an integer operator as a record               *)
(*   [op, l, r],  operand = [k |-> "sym", w |-> width of the argument]       *)
(*                        | [k |-> "const", w |-> value of the int literal]  *)
(* (left argument a, right argument b), what BitBlast.tla computes for it    *)
(* (Result) and what integer arithmetic says it must be (Bad: the first      *)
(* broken clause among WellTyped / Width / Arith / Cmp, "" if none).         *)
(* Shared by MC_BitBlast (all cases) and Trace_BitBlast (the real methods).  *)
(***************************************************************************)
EXTENDS BitBlast, TLC, Json

Cmps == {"Eq", "NotEq", "Gt", "Lt", "LtE", "GtE"}
Shifts == {"LShift", "RShift"}
BitName(p, j) == p \o "." \o ToString(j)      \* never compared with a string the harness makes: only used inside TLC
ArgBits(p, w) == [j \in 1..w |-> NSym(BitName(p, j - 1))]
Operand(o, p) == IF o.k = "sym" THEN TE(o.w, ArgBits(p, o.w)) ELSE ConstToQtype(o.w)
NBits(x) == (IF x.l.k = "sym" THEN x.l.w ELSE 0) + (IF x.r.k = "sym" THEN x.r.w ELSE 0)
\* the input bits in order: a's bits then b's
Inputs(x) == (IF x.l.k = "sym" THEN [j \in 1..x.l.w |-> BitName("a", j - 1)] ELSE <<>>)
             \o (IF x.r.k = "sym" THEN [j \in 1..x.r.w |-> BitName("b", j - 1)] ELSE <<>>)
LVal(x, row) == IF x.l.k = "sym" THEN row % (2^x.l.w) ELSE x.l.w
RVal(x, row) == IF x.r.k = "sym" THEN (row \div (IF x.l.k = "sym" THEN 2^x.l.w ELSE 1)) % (2^x.r.w) ELSE x.r.w
TypeW(o) == IF o.k = "sym" THEN o.w ELSE ConstToQtype(o.w).w
Wmax(x) == Max(TypeW(x.l), TypeW(x.r))
AndN(a, b) == LET RECURSIVE F(_, _, _) F(p, q, k) == IF p = 0 \/ q = 0 THEN 0 ELSE (IF p % 2 = 1 /\ q % 2 = 1 THEN k ELSE 0) + F(p \div 2, q \div 2, 2 * k) IN F(a, b, 1)
OrN(a, b) == a + b - AndN(a, b)
XorN(a, b) == a + b - 2 * AndN(a, b)
ExpW(x) == IF x.op = "Mult" THEN MulSizing(Wmax(x), Wmax(x)) ELSE IF x.op \in Shifts THEN x.l.w ELSE Wmax(x)
ExpVal(x, a, b, W) ==
  CASE x.op = "Add" -> (a + b) % (2^W)
    [] x.op = "Sub" -> (a - b) % (2^W)
    [] x.op = "Mult" -> (a * b) % (2^W)
    [] x.op = "BitXor" -> XorN(a, b)
    [] x.op = "BitAnd" -> AndN(a, b)
    [] x.op = "BitOr" -> OrN(a, b)
    [] x.op = "Mod" -> a % b
    [] x.op = "LShift" -> (a * 2^b) % (2^W)
    [] x.op = "RShift" -> a \div (2^b)
ExpCmp(x, a, b) ==
  CASE x.op = "Eq" -> a = b [] x.op = "NotEq" -> a # b [] x.op = "Gt" -> a > b
    [] x.op = "Lt" -> a < b [] x.op = "LtE" -> a <= b [] x.op = "GtE" -> a >= b

Result(x) ==
  LET l == Operand(x.l, "a")
      r == Operand(x.r, "b")
  IN IF x.op \in Cmps THEN TE(1, <<Compare(x.op, l, r)>>)
     ELSE IF x.op = "LShift" THEN ShiftLeft(l, x.r.w)
     ELSE IF x.op = "RShift" THEN ShiftRight(l, x.r.w)
     ELSE BinOp(x.op, l, r)

Bad(x) ==
  LET ins == Inputs(x)
      U == Rows(Len(ins))
      env == InputEnv(ins, U)
      res == Result(x)
  IN IF x.op = "Mod" /\ ~IsPow2(x.r.w) THEN (IF Rejects(res) THEN "" ELSE "Mod-by-a-non-power-of-two-not-rejected")
     ELSE IF x.op \in Cmps THEN
        (IF SemN(res.bits[1], env, U) = {row \in U : ExpCmp(x, LVal(x, row), RVal(x, row))} THEN "" ELSE "Cmp")
     ELSE IF Len(res.bits) # res.w \/ res.w \notin QintSizes THEN "WellTyped"
     ELSE IF res.w # ExpW(x) THEN "Width"
     ELSE IF \E row \in U : ValOn(res, env, U, row) # ExpVal(x, LVal(x, row), RVal(x, row), res.w) THEN "Arith"
     ELSE ""


(***************************************************************************)
(* fixed-point cases:  [op, l, r]  with operands                             *)
(*   [k |-> "fx", i, f]  argument of layout <<i, f>>                         *)
(*   [k |-> "flt", num, den]  float literal        [k |-> "int", v]  int     *)
(* ops: Add, Sub, the comparisons, Mult (fixed * int literal).              *)
(***************************************************************************)
FxOperand(o, p) == IF o.k = "fx" THEN FX(o.i, o.f, ArgBits(p, o.i + o.f)) ELSE FxLiteral(o.num, o.den)
FxInputs(x) == (IF x.l.k = "fx" THEN [j \in 1..(x.l.i + x.l.f) |-> BitName("a", j - 1)] ELSE <<>>)
               \o (IF x.r.k = "fx" THEN [j \in 1..(x.r.i + x.r.f) |-> BitName("b", j - 1)] ELSE <<>>)
FxRejected(x) == x.op # "Mult" /\ (LET l == FxOperand(x.l, "a") r == FxOperand(x.r, "b") IN l.w = 0 \/ r.w = 0 \/ FxRejects(l, r))
FxResult(x) ==
  LET l == FxOperand(x.l, "a") IN
  IF x.op = "Mult" THEN FxMulConst(l, x.r.v)
  ELSE LET r == FxOperand(x.r, "b") IN
       CASE x.op = "Add" -> FxAdd(l, r)
         [] x.op = "Sub" -> FxSub(l, l, r)
         [] x.op = "Eq" -> FX(1, 0, <<FxEq(l, r)>>) [] x.op = "NotEq" -> FX(1, 0, <<FxNeq(l, r)>>)
         [] x.op = "Gt" -> FX(1, 0, <<FxGt(l, r)>>) [] x.op = "Lt" -> FX(1, 0, <<FxLt(l, r)>>)
         [] x.op = "LtE" -> FX(1, 0, <<FxLte(l, r)>>) [] x.op = "GtE" -> FX(1, 0, <<FxGte(l, r)>>)
\* scaled value of a fixed-point bit-vector on a row: value * 2^f
FxValOn(v, env, U, row) ==
  LET q == ToQintRepr(v)
      RECURSIVE F(_) F(j) == IF j > Len(q) THEN 0 ELSE (IF row \in SemN(q[j], env, U) THEN 2^(j - 1) ELSE 0) + F(j + 1) IN F(1)
\* what arithmetic says: operands as scaled integers in the joined layout <<I, F>>
FxBad(x) ==
  LET ins == FxInputs(x)
      U == Rows(Len(ins))
      env == InputEnv(ins, U)
      res == FxResult(x)
      l == FxOperand(x.l, "a")
      r == IF x.op = "Mult" THEN l ELSE FxOperand(x.r, "b")
      I == Max(l.i, r.i)
      F == Max(l.f, r.f)
      LS(row) == FxValOn(l, env, U, row) * (2^(F - l.f))
      RS(row) == IF x.op = "Mult" THEN x.r.v ELSE FxValOn(r, env, U, row) * (2^(F - r.f))
      cmp(a, b) == CASE x.op = "Eq" -> a = b [] x.op = "NotEq" -> a # b [] x.op = "Gt" -> a > b
                     [] x.op = "Lt" -> a < b [] x.op = "LtE" -> a <= b [] x.op = "GtE" -> a >= b
  IN IF x.op \in Cmps THEN (IF SemN(res.bits[1], env, U) = {row \in U : cmp(LS(row), RS(row))} THEN "" ELSE "Cmp")
     ELSE IF res.i # I \/ res.f # F \/ Len(res.bits) # I + F THEN "Layout"
     ELSE IF \E row \in U : FxValOn(res, env, U, row) #
                (CASE x.op = "Add" -> LS(row) + RS(row) [] x.op = "Sub" -> LS(row) - RS(row) [] x.op = "Mult" -> LS(row) * RS(row)) % (2^(I + F))
          THEN "Arith"
     ELSE ""
=============================================================================

----------------------------- MODULE MC_BitBlast -----------------------------
(***************************************************************************)
(* Model checking of the transcribed integer operators (BitBlast.tla).      *)
(* Every initial state is one application  l OP r : the operands are        *)
(* symbolic arguments  a : Qint[wl], b : Qint[wr]  for every pair of widths  *)
(* in Widths, or int literals typed as the translator types them.  For      *)
(* EVERY assignment of the argument bits the result bit-vector must be the  *)
(* integer result reduced to the result type:                               *)
(*   WellTyped   as many bits as the type tag says, the tag a shipped size   *)
(*   Arith       value = (x OP y) mod 2^w   (Sub: two's complement)         *)
(*   Cmp         the predicate holds exactly on the rows where x CMP y      *)
(*   Width       the result type follows the documented rule                *)
(* Broken clauses are printed <<"B", clause, case>>; every case is also      *)
(* emitted <<"C", case>> so that the harness can run the REAL methods on    *)
(* the same operands (Trace_BitBlast).                                     *)
(***************************************************************************)
EXTENDS BitBlastCase

CONSTANTS Widths, Consts, MulMax, FxLayouts, FxFloats
VARIABLE c

Arith == {"Add", "Sub", "Mult", "BitXor", "BitAnd", "BitOr", "Mod"}
Operands == [k : {"sym"}, w : Widths] \cup [k : {"const"}, w : Consts]        \* w = width of the argument / value of the literal
Cases == {x \in [op : Arith \cup Cmps, l : Operands, r : Operands] :
            /\ ~(x.l.k = "const" /\ x.r.k = "const" /\ x.op # "Mult")
            /\ (x.op = "Mult" => (x.l.k = "sym" => x.l.w <= MulMax) /\ (x.r.k = "sym" => x.r.w <= MulMax))
            /\ (x.op = "Mod" => x.r.k = "const")}
         \cup [op : Shifts, l : [k : {"sym"}, w : Widths], r : [k : {"const"}, w : {0, 1, 2, 3}]]

\* fixed point: arguments of every layout in FxLayouts, float literals, every pair
\* (the cfg grammar has no tuples: a layout <<i, f>> is written 10*i + f, a literal num/den is written 100*num + den)
FxArgs == {[k |-> "fx", i |-> l \div 10, f |-> l % 10] : l \in FxLayouts}
FxLits == {[k |-> "flt", num |-> q \div 100, den |-> q % 100] : q \in FxFloats}
FxCases == {x \in [op : {"Add", "Sub"} \cup Cmps, l : FxArgs \cup FxLits, r : FxArgs \cup FxLits] : x.l.k = "fx" \/ x.r.k = "fx"}
           \cup [op : {"Mult"}, l : FxArgs, r : [k : {"int"}, v : {0, 1, 2, 3}]]
IsFx(x) == x.l.k \in {"fx", "flt"}

Init == c \in Cases \cup FxCases
Next == FALSE /\ c' = c
Spec == Init /\ [][Next]_c
OK == /\ PrintT(<<"C", ToJson(c)>>)
      /\ IF IsFx(c) THEN FxRejected(c) \/ FxBad(c) = "" \/ PrintT(<<"B", FxBad(c), ToJson(c)>>)
         ELSE Bad(c) = "" \/ PrintT(<<"B", Bad(c), ToJson(c)>>)
=============================================================================

------------------------------- MODULE Codec -------------------------------
(***************************************************************************)
(* Contract layer: the type codecs.                                         *)
(*                                                                         *)
(* A type descriptor is  [t |-> "bool"]                                     *)
(*                     | [t |-> "int",   w |-> n]         Qint[n]           *)
(*                     | [t |-> "char",  w |-> 8]         Qchar             *)
(*                     | [t |-> "fixed", i |-> a, f |-> b, w |-> a+b]       *)
(*                     | [t |-> "tuple", elts |-> <<T1, ..., Tk>>]          *)
(* (Qlist / Qmatrix are tuples of equal element types.)                     *)
(*                                                                         *)
(* An ENCODING is a sequence of BOOLEANs, bit k of the encoding at index    *)
(* k+1.  Values: BOOLEAN for bool, a natural for int (the integer), char    *)
(* (the code point) and fixed (the value scaled by 2^f, so that nothing is  *)
(* a fraction), a sequence of values for tuples.                            *)
(*   Qint:   little endian.                                                 *)
(*   Qfixed: integer part little endian in bits 0..i-1, then the fractional *)
(*           bits, bit i+j having weight 2^-(j+1).                          *)
(***************************************************************************)
EXTENDS Integers, Sequences, FiniteSets

P2(n) == 2^n
B2N(b) == IF b THEN 1 ELSE 0
BitAt(p, k) == (p \div P2(k)) % 2 = 1                 \* bit k of natural p

RECURSIVE SumTo(_, _)
SumTo(f(_), n) == IF n = 0 THEN 0 ELSE f(n) + SumTo(f, n-1)   \* f(1)+...+f(n)

RECURSIVE Width(_)
Width(T) ==
  CASE T.t = "bool"  -> 1
    [] T.t \in {"int", "char", "fixed"} -> T.w
    [] T.t = "tuple" -> LET RECURSIVE F(_) F(j) == IF j > Len(T.elts) THEN 0 ELSE Width(T.elts[j]) + F(j+1) IN F(1)

\* pattern (natural) <-> bit sequence
BitsOf(p, w) == [k \in 1..w |-> BitAt(p, k-1)]
PatOf(bits) == LET RECURSIVE F(_) F(k) == IF k > Len(bits) THEN 0 ELSE B2N(bits[k]) * P2(k-1) + F(k+1) IN F(1)

FixedWeight(T, k) ==      \* weight of bit k (0-based) of a fixed encoding, scaled by 2^f
  IF k < T.i THEN P2(k) * P2(T.f) ELSE P2(T.f - 1 - (k - T.i))

RECURSIVE Dec(_, _)
Dec(T, bits) ==
  CASE T.t = "bool" -> bits[1]
    [] T.t \in {"int", "char"} -> PatOf(bits)
    [] T.t = "fixed" -> LET RECURSIVE F(_) F(k) == IF k > T.w THEN 0 ELSE B2N(bits[k]) * FixedWeight(T, k-1) + F(k+1) IN F(1)
    [] T.t = "tuple" ->
         LET RECURSIVE Off(_) Off(j) == IF j = 1 THEN 0 ELSE Off(j-1) + Width(T.elts[j-1])
         IN [j \in 1..Len(T.elts) |-> Dec(T.elts[j], SubSeq(bits, Off(j) + 1, Off(j) + Width(T.elts[j])))]

\* the fixed encoding of scaled value v: integer part v div 2^f little endian, fraction bits MSB first
FixedBit(T, v, k) ==
  IF k < T.i THEN BitAt(v \div P2(T.f), k) ELSE BitAt(v % P2(T.f), T.f - 1 - (k - T.i))

RECURSIVE Enc(_, _)
Enc(T, v) ==
  CASE T.t = "bool" -> <<v>>
    [] T.t \in {"int", "char"} -> BitsOf(v % P2(T.w), T.w)
    [] T.t = "fixed" -> [k \in 1..T.w |-> FixedBit(T, v % P2(T.w), k-1)]
    [] T.t = "tuple" -> LET RECURSIVE F(_) F(j) == IF j > Len(T.elts) THEN <<>> ELSE Enc(T.elts[j], v[j]) \o F(j+1) IN F(1)

\* basis index whose bit k is bit k of the encoding
AmpIndex(bits) == PatOf(bits)

\* the string conventions of the API: a string of '0'/'1' characters as a sequence of naturals 0/1
\* "reading" (Qiskit order): character 1 is the LAST qubit/bit; bit k = s[Len - k]
ReadingToBits(s) == [k \in 1..Len(s) |-> s[Len(s) + 1 - k] = 1]
BitsToReading(bits) == [k \in 1..Len(bits) |-> B2N(bits[Len(bits) + 1 - k])]
\* to_bin(): character k+1 is bit k
BinToBits(s) == [k \in 1..Len(s) |-> s[k] = 1]

\* smallest literal type of an integer constant (documented: 2,4,6,8,12,16 bits)
ConstWidth(v) == IF v < 4 THEN 2 ELSE IF v < 16 THEN 4 ELSE IF v < 64 THEN 6 ELSE IF v < 256 THEN 8
                 ELSE IF v < 4096 THEN 12 ELSE 16
=============================================================================

--------------------------------- MODULE BQM ---------------------------------
(***************************************************************************)
(* Refinement layer: qlasskit/bqm.py as written.                            *)
(*                                                                         *)
(*   SympyToBQM.visit  -> Tree(e): the tree of pyqubo calls for a boolean   *)
(*                        expression (Symbol -> Binary, constants, Not,     *)
(*                        And / Xor folded to the RIGHT when they have more *)
(*                        than two operands, Or handed over as it is:       *)
(*                        pyqubo.Or takes two operands, a wider one raises) *)
(*   to_bqm            -> Model(exprs): merge_expressions leaves the return *)
(*                        bits; the energy is the SUM of their trees, built *)
(*                        with += (left nested)                             *)
(* Trees use the vocabulary of the recording stand-in (stubs/pyqubo):       *)
(* [k |-> "bin", n], [k |-> "const", v], [k |-> "not", a],                  *)
(* [k |-> "and" | "or" | "xor", a, b], [k |-> "add", terms], and           *)
(* [k |-> "error", why] for the calls that raise.                           *)
(* Val(t, s) is the polynomial a tree denotes (pyqubo's documented logic    *)
(* gates), the same definition Trace_C18 judges recorded trees with.        *)
(* sympy hands the operands of And / Xor over in its private order, so the  *)
(* binding compares trees up to the order in which a chain's operands are   *)
(* folded: Norm(t) flattens every and / xor / or chain into the SET of its  *)
(* (normalised) operands.                                                   *)
(***************************************************************************)
EXTENDS BoolSem, FiniteSetsExt, SequencesExt

Bin(n) == [k |-> "bin", n |-> n]
Const(v) == [k |-> "const", v |-> v]
Err(why) == [k |-> "error", why |-> why]
Node2(kind, a, b) == [k |-> kind, a |-> a, b |-> b]

RECURSIVE Tree(_)
\* args[0] op visit(Op(*args[1:])): right fold of a sequence of already translated operands
RECURSIVE FoldR2(_, _)
FoldR2(kind, ts) == IF Len(ts) = 2 THEN Node2(kind, ts[1], ts[2]) ELSE Node2(kind, ts[1], FoldR2(kind, Tail(ts)))
Tree(e) ==
  CASE e.op = "sym" -> Bin(e.n)
    [] e.op = "true" -> Const(1)
    [] e.op = "false" -> Const(0)
    [] e.op = "not" -> [k |-> "not", a |-> Tree(e.args[1])]
    [] e.op \in {"and", "xor"} -> FoldR2(e.op, [j \in 1..Len(e.args) |-> Tree(e.args[j])])
    [] e.op = "or" -> IF Len(e.args) = 2 THEN Node2("or", Tree(e.args[1]), Tree(e.args[2])) ELSE Err("pyqubo.Or-takes-two-operands")
    [] OTHER -> Err("unable-to-translate")

RECURSIVE HasErr(_)
HasErr(t) ==
  CASE t.k = "error" -> TRUE
    [] t.k \in {"bin", "const"} -> FALSE
    [] t.k = "not" -> HasErr(t.a)
    [] t.k = "add" -> \E j \in 1..Len(t.terms) : HasErr(t.terms[j])
    [] OTHER -> HasErr(t.a) \/ HasErr(t.b)

\* e = None; for each return bit: e = new_e if e is None else e + new_e   (Node.__add__ nests to the left)
Model(rexprs) ==
  LET RECURSIVE F(_, _)
      \* two constants are Python numbers: True + False is the int 1, no model building call is made
      F(j, acc) == IF j > Len(rexprs) THEN acc
                   ELSE LET t == Tree(rexprs[j]) IN
                        F(j + 1, IF acc.k = "const" /\ t.k = "const" THEN Const(acc.v + t.v) ELSE [k |-> "add", terms |-> <<acc, t>>])
  IN IF Len(rexprs) = 0 THEN Err("problem-is-empty") ELSE F(2, Tree(rexprs[1]))

\* ---- the polynomial a tree denotes under an assignment s (variable name -> 0/1)
RECURSIVE Val(_, _)
Val(t, s) ==
  CASE t.k = "bin" -> s[t.n]
    [] t.k = "const" -> t.v
    [] t.k = "not" -> 1 - Val(t.a, s)
    [] t.k = "and" -> Val(t.a, s) * Val(t.b, s)
    [] t.k = "or" -> Val(t.a, s) + Val(t.b, s) - Val(t.a, s) * Val(t.b, s)
    [] t.k = "xor" -> Val(t.a, s) + Val(t.b, s) - 2 * Val(t.a, s) * Val(t.b, s)
    [] t.k = "add" -> LET RECURSIVE F(_) F(j) == IF j > Len(t.terms) THEN 0 ELSE Val(t.terms[j], s) + F(j + 1) IN F(1)

\* ---- comparison up to the order in which the operands of a chain are folded
RECURSIVE Norm(_)
RECURSIVE Chain(_, _)
Chain(kind, t) == IF t.k = kind THEN Chain(kind, t.a) \cup Chain(kind, t.b) ELSE {Norm(t)}
Norm(t) ==
  CASE t.k \in {"bin", "const", "error"} -> t
    [] t.k = "not" -> [k |-> "not", a |-> Norm(t.a)]
    [] t.k \in {"and", "xor", "or"} -> [k |-> t.k, args |-> Chain(t.k, t)]
    [] t.k = "add" -> [k |-> "add", terms |-> LET RECURSIVE F(_) F(u) == IF u.k = "add" THEN F(u.terms[1]) \o SubSeq([j \in 1..Len(u.terms) |-> Norm(u.terms[j])], 2, Len(u.terms)) ELSE <<Norm(u)>> IN F(t)]
=============================================================================

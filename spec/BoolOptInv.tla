----------------------------- MODULE BoolOptInv -----------------------------
(***************************************************************************)
(* What is model-checked about the transcribed rewrite rules (BoolOpt.tla)  *)
(* on one expression tree t, for EVERY step and EVERY outcome the step's    *)
(* relation allows (i.e. on all argument orders, where the real library     *)
(* shows only the order sympy happens to choose):                           *)
(*   Canon       the N-form of t has the meaning of t                       *)
(*   Sound       the outcome has the meaning of t on all assignments        *)
(*   NoNewSyms   it mentions no symbol t does not                           *)
(*   Shape       it has the shape the step promises (no ITE / no Implies /  *)
(*               no disjunction of more than two arguments)                 *)
(* and the pattern pipeline as a whole (the fastOptimizer profile, the tail *)
(* of the default one) is sound and ends inside the synthesiser's grammar.  *)
(* Broken clauses are printed <<"B", clause, step, tree>> (the run goes on   *)
(* so that all of them are listed); <<"N", tree>> marks trees on which a     *)
(* rule is nondeterministic, <<"F", step>> a rule that fired.                *)
(***************************************************************************)
EXTENDS BoolOpt, TLC, Json

RulesOKFor(t) ==
  LET syms == SetToSeq(FreeSyms(t))
      U == Rows(Len(syms))
      env == InputEnv(syms, U)
      n == CanonE(t)
      m == Sem(t, env, U)
      Bad(st, o) == IF SemN(o, env, U) # m THEN "Sound"
                    ELSE IF ~(FreeN(o) \subseteq FreeSyms(t)) THEN "NoNewSyms"
                    ELSE IF ~Post(st, o) THEN "Shape" ELSE ""
  IN /\ SemN(n, env, U) = m \/ PrintT(<<"B", "Canon", "-", ToJson(t)>>)
     /\ \A st \in Steps : \A o \in Vis(st, n) :
           /\ Bad(st, o) = "" \/ PrintT(<<"B", Bad(st, o), st, ToJson(t)>>)
           /\ o = n \/ PrintT(<<"F", st>>)
     /\ \A o \in Pipe(1, n) :
           /\ SemN(o, env, U) = m \/ PrintT(<<"B", "Sound", "pipeline", ToJson(t)>>)
           /\ SynthReady(o) \/ PrintT(<<"B", "SynthReady", "pipeline", ToJson(t)>>)
     /\ (\E st \in Steps : Cardinality(Vis(st, n)) > 1) => PrintT(<<"N", ToJson(t)>>)
=============================================================================

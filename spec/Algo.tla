-------------------------------- MODULE Algo --------------------------------
(***************************************************************************)
(* Contract layer for the algorithm wrappers (C15, C16).                    *)
(*                                                                         *)
(* Reference constructions are built from the abstract xor-oracle ORA (see  *)
(* QSim) instead of a compiled circuit, so the distribution they give       *)
(* depends on the SET of marked inputs only.                                *)
(***************************************************************************)
EXTENDS QSim

Gt(k, w) == [k |-> k, w |-> w, m |-> 0]
RECURSIVE Seq1(_, _, _)
Seq1(F(_), j, n) == IF j > n THEN <<>> ELSE <<F(j)>> \o Seq1(F, j + 1, n)     \* <<F(j), ..., F(n)>>

\* default number of Grover iterations: ceil(pi/4 * sqrt(N/M)); pi^2 bracketed by 98696/10000
GroverIters(N, M) == CHOOSE k \in 0..40 : k * k * 16 * M * 10000 >= 98696 * N /\ (k = 0 \/ (k - 1) * (k - 1) * 16 * M * 10000 < 98696 * N)

(* The library's Grover wrapper, with the oracle abstracted: search register 0..n-1, oracle result  *)
(* qubit r = n, phase qubit p = n+1:  H^n ; H(p) ; ( ORA ; CZ(r,p) ; diffuser )^iters               *)
(* diffuser = H X on search and p ; multi-controlled Z over search + p ; X H on search and p        *)
IdealGrover(n, sol, iters) ==
  LET r == n  p == n + 1
      reg == [j \in 1..n |-> j - 1]
      hx == Seq1(LAMBDA j : Gt("H", <<j - 1>>), 1, n)
      pre == hx \o <<Gt("H", <<p>>)>>
      ora == <<[k |-> "ORA", w |-> Append(reg, r), m |-> 0, sol |-> sol], Gt("MCZ", <<r, p>>)>>
      dA == LET RECURSIVE F(_) F(j) == IF j > n THEN <<>> ELSE <<Gt("H", <<j - 1>>), Gt("X", <<j - 1>>)>> \o F(j + 1) IN F(1)
      dB == <<Gt("H", <<p>>), Gt("X", <<p>>), Gt("MCZ", Append(reg, p))>>
      dC == LET RECURSIVE F(_) F(j) == IF j > n THEN <<>> ELSE <<Gt("X", <<j - 1>>), Gt("H", <<j - 1>>)>> \o F(j + 1) IN F(1)
      dD == <<Gt("X", <<p>>), Gt("H", <<p>>)>>
      it == ora \o dA \o dB \o dC \o dD
      RECURSIVE Rep(_) Rep(k) == IF k = 0 THEN <<>> ELSE it \o Rep(k - 1)
  IN pre \o Rep(iters)

\* two marginals (sequences of BigNat numerators with scales k1, k2) describe the same distribution
SameDist(m1, k1, m2, k2) ==
  /\ DOMAIN m1 = DOMAIN m2
  /\ \A v \in DOMAIN m1 : BShl(m1[v], k2) = BShl(m2[v], k1)
RECURSIVE BSum(_, _)
BSum(m, V) == IF V = {} THEN BZero ELSE LET v == CHOOSE v \in V : TRUE IN BAdd(m[v], BSum(m, V \ {v}))
One(k) == BShl(<<1>>, k)           \* the numerator of probability 1 at scale k
Parity(a, b, n) == LET RECURSIVE F(_) F(j) == IF j = n THEN 0 ELSE (IF QBit(a, j) /\ QBit(b, j) THEN 1 ELSE 0) + F(j + 1) IN F(0) % 2
=============================================================================

------------------------------ MODULE Circuit ------------------------------
(***************************************************************************)
(* Contract layer: action of a gate list on CLASSICAL basis states.         *)
(*                                                                         *)
(* A gate is a record [k |-> kind, w |-> <<q1,...,qn>>, ...]; for the X     *)
(* family ("X" with 0 controls, "MCX" with >= 1 controls: CX, CCX, MCX and  *)
(* MCtrl(X) all serialise to "MCX") w lists the controls first and the      *)
(* target last.  "BAR" (barrier) and "I" do nothing.                        *)
(*                                                                         *)
(* Instead of running one basis state at a time, a valuation assigns to     *)
(* every qubit the SET OF INPUT ROWS on which it is 1 (see BoolSem): one    *)
(* run of the gate list then covers every input simultaneously.            *)
(***************************************************************************)
EXTENDS BoolSem

Ctrl(w) == SubSeq(w, 1, Len(w) - 1)
Tgt(w)  == w[Len(w)]

IsClassicalKind(k) == k \in {"X", "MCX"}
IsNopKind(k)       == k \in {"BAR", "I"}

\* val : sequence, val[q+1] = row set of qubit q
ApplyClassical(val, g, U) ==
  IF IsNopKind(g.k) THEN val
  ELSE LET c == Ctrl(g.w)
           RECURSIVE F(_)
           F(j) == IF j > Len(c) THEN U ELSE val[c[j] + 1] \cap F(j+1)
       IN [val EXCEPT ![Tgt(g.w) + 1] = SD(val[Tgt(g.w) + 1], F(1))]

RECURSIVE RunFrom(_, _, _, _)
RunFrom(gates, j, val, U) ==
  IF j > Len(gates) THEN val ELSE RunFrom(gates, j+1, ApplyClassical(val, gates[j], U), U)
Run(gates, val, U) == RunFrom(gates, 1, val, U)

AllClassical(gates) == \A j \in 1..Len(gates) : IsClassicalKind(gates[j].k) \/ IsNopKind(gates[j].k)

\* every qubit index used by the gate list is < nq, and no gate repeats a qubit
WellFormed(gates, nq) ==
  \A j \in 1..Len(gates) :
     /\ \A i \in 1..Len(gates[j].w) : gates[j].w[i] \in 0..(nq-1)
     /\ \A i1, i2 \in 1..Len(gates[j].w) : i1 # i2 => gates[j].w[i1] # gates[j].w[i2]

\* initial valuation: input qubit k-1 holds input bit k-1, everything else 0
InitVal(nin, nq, U) == [q \in 1..nq |-> IF q <= nin THEN SymRows(U, q-1) ELSE {}]
=============================================================================

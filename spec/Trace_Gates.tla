---------------------------- MODULE Trace_Gates ----------------------------
(***************************************************************************)
(* Validation of recorded gate-level operations of the real library against *)
(* the contract layer (Circuit, BoolSem, QSim).  IOEnv.PROP selects the     *)
(* property:                                                                *)
(*  C11  decompile(circuit): sections, index ranges, expressions            *)
(*  C12  circuit_boolean_optimizer(circuit)                                 *)
(*  C13  exporters: neutral gate list read back from the exported artefact   *)
(*  C14  composition operators on QCircuit objects                          *)
(***************************************************************************)
EXTENDS Circuit, QSim, Decompile, DecOpt, CircuitOps, TLC, Json, IOUtils

Cases == JsonDeserialize(IOEnv.CASES)
VARIABLE i

MinOf(S) == CHOOSE x \in S : \A y \in S : x <= y
NonBar(gs) == SelectSeq(gs, LAMBDA g : g.k # "BAR")
\* what a gate does, ignoring which library class/object it is
\* (a phase gate of pi, pi/2, pi/4 IS Z, S, T: an export that is read back cannot tell which class it was)
PName(m) == IF m = 8 THEN "Z" ELSE IF m = 4 THEN "S" ELSE IF m = 2 THEN "T" ELSE "P"
Core(g) == [k |-> IF g.k = "P" THEN PName(g.m) ELSE g.k, w |-> g.w,
            m |-> IF g.k = "MCP" \/ (g.k = "P" /\ PName(g.m) = "P") THEN g.m ELSE 0]
Cores(gs) == [j \in 1..Len(gs) |-> Core(gs[j])]
IsCl(g) == g.k \in {"X", "MCX", "I"}          \* the gates a classical run is made of (the identity is one of the library's ZB_GATES)

---------------------------------------------------------------------------
(* C11.  case: gates, nq, names (name of qubit q as used in expressions),   *)
(* sections = << [s, e, gates, exprs] >>, exc                               *)
SectionOK(c, sec) ==
  LET inrange == SubSeq(c.gates, sec.s + 1, sec.e)              \* gates[s .. e)
      U == Rows(c.nq)
      v0 == [q \in 1..c.nq |-> SymRows(U, q - 1)]
      env0 == [n \in {c.names[q] : q \in 1..c.nq} |-> SymRows(U, (CHOOSE q \in 1..c.nq : c.names[q] = n) - 1)]
      fin == Run(sec.gates, v0, U)
      ex(q) == {j \in 1..Len(sec.exprs) : sec.exprs[j][1] = c.names[q]}
      prev == {j \in 1..sec.s : c.gates[j].k # "BAR"}           \* non-barrier gates before the range
      nxt  == {j \in (sec.e + 1)..Len(c.gates) : c.gates[j].k # "BAR"}
  IN
  IF sec.s < 0 \/ sec.e > Len(c.gates) \/ sec.s >= sec.e THEN "index-range-out-of-bounds"
  ELSE IF Cores(NonBar(inrange)) # Cores(NonBar(sec.gates)) THEN "index-range-does-not-cover-exactly-the-section-gates"
  ELSE IF \E j \in 1..Len(sec.gates) : ~IsCl(sec.gates[j]) /\ sec.gates[j].k # "BAR" THEN "non-classical-gate-in-section"
  ELSE IF prev # {} /\ IsCl(c.gates[CHOOSE j \in prev : \A k \in prev : k <= j]) THEN "section-not-maximal-at-start"
  ELSE IF nxt # {} /\ IsCl(c.gates[MinOf(nxt)]) THEN "section-not-maximal-at-end"
  ELSE IF \E j \in 1..Len(sec.exprs) : \E n \in FreeSyms(sec.exprs[j][2]) : n \notin DOMAIN env0 THEN "expression-mentions-unknown-qubit"
  ELSE IF \E q \in 1..c.nq : Cardinality(ex(q)) > 1 THEN "two-expressions-for-one-qubit"
  ELSE IF \E q \in 1..c.nq : ex(q) # {} /\ fin[q] # Sem(sec.exprs[CHOOSE j \in ex(q) : TRUE][2], env0, U) THEN "expression-differs-from-gates"
  ELSE IF \E q \in 1..c.nq : ex(q) = {} /\ fin[q] # v0[q] THEN "changed-qubit-without-expression"
  ELSE "ok"

C11(c) ==
  IF c.exc # "" THEN <<"fail", "decompile-raised", 0>>
  ELSE
  LET bad == {k \in 1..Len(c.sections) : SectionOK(c, c.sections[k]) # "ok"}
      covered(j) == {k \in 1..Len(c.sections) : c.sections[k].s < j /\ j <= c.sections[k].e}
      cl == {j \in 1..Len(c.gates) : IsCl(c.gates[j])}
  IN IF bad # {} THEN <<"fail", SectionOK(c, c.sections[MinOf(bad)]), MinOf(bad) - 1>>
     ELSE IF \E j \in cl : Cardinality(covered(j)) # 1 THEN <<"fail", "classical-gate-not-in-exactly-one-section", MinOf({j \in cl : Cardinality(covered(j)) # 1}) - 1>>
     ELSE \* refinement binding: the transcribed scanner (Decompile.tla) predicts the reported ranges
          \* and the transcribed symbolic execution predicts each section's expression list, structurally
          LET pred == Sections(c.gates)
              scan == Len(pred) = Len(c.sections) /\ \A k \in 1..Len(pred) :
                        pred[k].s = c.sections[k].s /\ pred[k].e = c.sections[k].e /\ pred[k].n = Len(NonBar(c.sections[k].gates))
              exprs == \A k \in 1..Len(c.sections) :
                         LET m == SectionExprs(c.sections[k].gates, c.names)
                             r == c.sections[k].exprs
                         IN Len(m) = Len(r) /\ \A j \in 1..Len(m) : m[j][1] = r[j][1] /\ m[j][2] = CanonE(r[j][2])
              \* the library's classical simulator agrees with Circuit.Run on every basis input (c.cnotsim: <<input, output>>)
              U1 == Rows(c.nq)
              fin1 == Run(c.gates, [q \in 1..c.nq |-> SymRows(U1, q - 1)], U1)
              OutOf(b) == LET RECURSIVE F(_) F(q) == IF q > c.nq THEN 0 ELSE (IF b \in fin1[q] THEN Pow2(q - 1) ELSE 0) + F(q + 1) IN F(1)
              sim == \A k \in 1..Len(c.cnotsim) : c.cnotsim[k][1] >= 0 /\ c.cnotsim[k][2] = OutOf(c.cnotsim[k][1])
          IN <<"ok", IF ~scan THEN "scanner-model-drift" ELSE IF ~exprs THEN "expression-model-drift"
                     ELSE IF ~sim THEN "cnotsim-disagrees-with-Circuit.Run" ELSE "scanner-model-conforms", Len(c.sections)>>

---------------------------------------------------------------------------
(* C12.  case: gin (input gates), gin_after, gout, nq, nq_out, exc          *)
C12(c) ==
  IF c.exc # "" THEN <<"fail", "optimizer-raised", 0>>
  ELSE IF Cores(c.gin) # Cores(c.gin_after) THEN <<"fail", "input-circuit-modified", 0>>
  ELSE IF c.nq_out # c.nq THEN <<"fail", "qubit-count-changed", c.nq_out>>
  ELSE IF ~WellFormed(c.gout, c.nq) THEN <<"fail", "output-gate-malformed", 0>>
  ELSE IF Len(NonBar(c.gout)) > Len(NonBar(c.gin)) THEN <<"fail", "more-gates-than-original", Len(NonBar(c.gout))>>
  ELSE IF AnyOpaque(c.gin) \/ AnyOpaque(c.gout) THEN <<"skip", "opaque-gate", 0>>
  ELSE LET d == FirstDiff(c.gin, c.gout, c.nq) IN
       IF d # -1 THEN <<"fail", "different-unitary", d>>
       ELSE \* refinement binding: the visited sections are the decompiler model's (last first), and the transcribed
            \* accept / splice logic (DecOpt.tla) applied to the recorded re-syntheses gives the returned gate list
            LET recs == [k \in 1..Len(c.secs) |->
                           [s |-> c.secs[k].s, e |-> c.secs[k].e, ngates |-> c.secs[k].ngates,
                            secq |-> {c.secs[k].secq[j] : j \in 1..Len(c.secs[k].secq)}, raised |-> c.secs[k].raised,
                            new |-> c.secs[k].new, used |-> {c.secs[k].used[j] : j \in 1..Len(c.secs[k].used)},
                            qmap |-> [n \in DOMAIN c.secs[k].qmap \ {"__pad__"} |-> c.secs[k].qmap[n]],
                            qmapnew |-> [n \in DOMAIN c.secs[k].qmapnew \ {"__pad__"} |-> c.secs[k].qmapnew[n]]]]
                 pred == Sections(c.gin)
                 visited == Len(pred) = Len(recs) /\ \A k \in 1..Len(recs) :
                              recs[k].s = pred[Len(pred) + 1 - k].s /\ recs[k].e = pred[Len(pred) + 1 - k].e
                 conf == IF ~c.hooked THEN "no-sections-recorded"
                         ELSE IF ~visited THEN "decopt-model-drift:sections-visited"
                         ELSE IF ~OrderOK(recs) THEN "decopt-model-drift:order"
                         ELSE IF Cores(Splice(c.gin, recs, 1)) # Cores(c.gout) THEN "decopt-model-drift:splice"
                         ELSE "decopt-model-conforms"
            IN <<"ok", conf, Len(NonBar(c.gin)) - Len(NonBar(c.gout))>>

---------------------------------------------------------------------------
(* C14.  case: steps = << [op, ..., before, after, exc] >> where before / after are the snapshots  *)
(* << [nq, gates] >> of ALL live objects (object k at index k+1) around the step                    *)
Remap(gs, f) == [j \in 1..Len(gs) |-> [gs[j] EXCEPT !.w = [k \in 1..Len(gs[j].w) |-> f[gs[j].w[k] + 1]]]]
RECURSIVE Power(_, _)
Power(gs, n) == IF n = 0 THEN <<>> ELSE gs \o Power(gs, n - 1)
SameU(g1, g2, nq) == IF AnyOpaque(g1) \/ AnyOpaque(g2) THEN Cores(NonBar(g1)) = Cores(NonBar(g2)) ELSE SameUnitary(g1, g2, nq)

StepOK(st) ==
  LET B == st.before  A == st.after  op == st.op
      unchanged(S) == \A k \in S : k <= Len(A) /\ A[k].nq = B[k].nq /\ Cores(A[k].gates) = Cores(B[k].gates) /\ A[k].aux = B[k].aux
      all == 1..Len(B)
      new == A[Len(A)]
  IN
  IF st.exc # "" THEN "operation-raised"
  ELSE IF op = "new" THEN (IF Len(A) = Len(B) + 1 /\ unchanged(all) THEN "ok" ELSE "frame")
  ELSE IF op \in {"append_circuit", "iadd"} THEN
       LET d == st.dst + 1  s == st.src + 1
           f == IF op = "iadd" THEN [k \in 1..B[s].nq |-> k - 1] ELSE st.qubits
       IN IF Len(A) # Len(B) \/ ~unchanged(all \ {d}) THEN "operand-or-bystander-modified"
          ELSE IF A[d].nq # B[d].nq THEN "qubit-count-changed"
          ELSE IF SameU(A[d].gates, B[d].gates \o Remap(B[s].gates, f), B[d].nq) THEN "ok" ELSE "not-the-composition"
  ELSE IF op = "add" THEN
       IF Len(A) # Len(B) + 1 \/ ~unchanged(all) THEN "operand-or-bystander-modified"
       ELSE IF new.nq # B[st.a + 1].nq THEN "qubit-count-changed"
       ELSE IF SameU(new.gates, B[st.a + 1].gates \o B[st.b + 1].gates, new.nq) THEN "ok" ELSE "not-the-composition"
  ELSE IF op = "repeat" THEN
       IF Len(A) # Len(B) + 1 \/ ~unchanged(all) THEN "operand-or-bystander-modified"
       ELSE IF new.nq # B[st.a + 1].nq THEN "qubit-count-changed"
       ELSE IF SameU(new.gates, Power(B[st.a + 1].gates, st.n), new.nq) THEN "ok" ELSE "not-the-n-fold-composition"
  ELSE IF op = "copy" THEN
       IF Len(A) # Len(B) + 1 \/ ~unchanged(all) THEN "operand-or-bystander-modified"
       ELSE IF new.nq # B[st.a + 1].nq THEN "qubit-count-changed"
       ELSE IF SameU(new.gates, B[st.a + 1].gates, new.nq) THEN "ok" ELSE "copy-acts-differently"
  ELSE IF op = "gate" THEN
       LET d == st.dst + 1 IN
       IF Len(A) # Len(B) \/ ~unchanged(all \ {d}) THEN "mutation-shows-in-another-object"
       ELSE IF Cores(A[d].gates) = Cores(Append(B[d].gates, st.g)) THEN "ok" ELSE "append-gate"
  ELSE IF op \in {"rmid", "qft_iqft"} THEN
       LET a == st.a + 1 IN
       IF Len(A) # Len(B) \/ ~unchanged(all \ {a}) THEN "operand-or-bystander-modified"
       ELSE IF A[a].nq # B[a].nq THEN "qubit-count-changed"
       ELSE IF SameU(A[a].gates, B[a].gates, B[a].nq) THEN "ok"
       ELSE IF op = "rmid" THEN "remove_identities-changed-the-action" ELSE "iqft-does-not-undo-qft"
  ELSE IF op \in {"anc", "uncompute"} THEN     \* ancilla bookkeeping of one object: nothing of any other object may change
       LET a == st.a + 1 IN
       IF Len(A) # Len(B) \/ ~unchanged(all \ {a}) THEN "operand-or-bystander-modified"
       ELSE IF op = "anc" /\ (A[a].nq # B[a].nq + 1 \/ Cores(A[a].gates) # Cores(B[a].gates)) THEN "new-ancilla"
       ELSE "ok"
  ELSE "unknown-op"

\* refinement binding: the transcribed operators (CircuitOps.tla) predict the recorded gate list of the object a
\* step writes, gate for gate, including which entries are the SAME gate object (pattern of first occurrences)
Pattern(gs) == [j \in 1..Len(gs) |-> CHOOSE k \in 1..j : gs[k].id = gs[j].id /\ \A l \in 1..(k - 1) : gs[l].id # gs[j].id]
WithIds(gs, next) == [j \in 1..Len(gs) |-> [gs[j] EXCEPT !.id = next + j]]
Predicted(st) ==
  LET B == st.before  op == st.op  NX == 100000 IN
  CASE op \in {"append_circuit"} -> AppendCircuit(B[st.dst + 1], B[st.src + 1], st.qubits).gates
    [] op = "iadd" -> IAdd(B[st.dst + 1], B[st.src + 1]).gates
    [] op = "add" -> Add(B[st.a + 1], B[st.b + 1], NX).c.gates
    [] op = "repeat" -> Repeat(B[st.a + 1], st.n, NX).c.gates
    [] op = "copy" -> DeepCopy(B[st.a + 1], NX).c.gates
    [] op = "gate" -> AppendGate(B[st.dst + 1], [id |-> 0, k |-> st.g.k, w |-> st.g.w, m |-> st.g.m], NX).c.gates
    [] op = "rmid" -> RemoveIdentities(B[st.a + 1]).gates
    [] op = "qft_iqft" -> B[st.a + 1].gates \o WithIds(QftGates(st.qubits) \o IqftGates(st.qubits), NX)
    [] OTHER -> <<>>
Written(st) == IF st.op \in {"append_circuit", "iadd", "gate"} THEN st.after[st.dst + 1].gates
               ELSE IF st.op \in {"rmid", "qft_iqft"} THEN st.after[st.a + 1].gates
               ELSE st.after[Len(st.after)].gates
Conforms(st) == st.op \in {"new", "anc", "uncompute"} \/ st.exc # "" \/     \* (the ancilla bookkeeping is Synth.tla's subject)
                (LET p == Predicted(st)  w == Written(st) IN Cores(p) = Cores(w) /\ Pattern(p) = Pattern(w))

C14(c) ==
  LET bad == {k \in 1..Len(c.steps) : StepOK(c.steps[k]) # "ok"}
      drift == {k \in 1..Len(c.steps) : ~Conforms(c.steps[k])}
  IN
  IF bad = {} THEN <<"ok", IF drift = {} THEN "ops-model-conforms" ELSE "ops-model-drift:" \o c.steps[MinOf(drift)].op, Len(c.steps)>>
  ELSE <<"fail", StepOK(c.steps[MinOf(bad)]), MinOf(bad) - 1>>

---------------------------------------------------------------------------
(* C13.  case: target, mode, gates (the circuit), nq, neutral (gate list read back from the export), *)
(* nq_export, exc, structural (TRUE: the target keeps gates one for one), and for QASM:              *)
(* formals (circuit index each declared formal name maps to), call (operand indices of the call)     *)
\* "the same gates in the same order on the same qubits", up to the order of gates that share no
\* qubit (a target framework may store independent instructions in another order): for every qubit,
\* the sequence of gates touching it is the same
OnQubit(gs, q) == Cores(SelectSeq(gs, LAMBDA g : \E k \in 1..Len(g.w) : g.w[k] = q))
C13(c) ==
  LET src == NonBar(c.gates)  exp == NonBar(c.neutral) IN
  IF c.exc # "" THEN <<"fail", "exporter-raised", 0>>
  ELSE IF c.nq_export # c.nq THEN <<"fail", "qubit-count-differs", c.nq_export>>
  ELSE IF "formals" \in DOMAIN c /\ c.formals # [j \in 1..c.nq |-> j - 1] THEN <<"fail", "qasm-formals-not-one-per-qubit-in-index-order", Len(c.formals)>>
  ELSE IF "call" \in DOMAIN c /\ c.call # [j \in 1..c.nq |-> j - 1] THEN <<"fail", "qasm-call-operands", Len(c.call)>>
  ELSE IF ~WellFormed(c.neutral, c.nq) THEN <<"fail", "exported-gate-malformed", 0>>
  ELSE IF c.structural /\ Len(exp) # Len(src) THEN <<"fail", "gate-count-differs", Len(exp)>>
  ELSE IF c.structural /\ \E q \in 0..(c.nq - 1) : OnQubit(exp, q) # OnQubit(src, q)
       THEN <<"fail", "gate-differs", MinOf({q \in 0..(c.nq - 1) : OnQubit(exp, q) # OnQubit(src, q)})>>
  ELSE IF AnyOpaque(src) \/ AnyOpaque(exp) THEN (IF Cores(exp) = Cores(src) THEN <<"ok", "structural-only", Len(src)>> ELSE <<"fail", "phase-not-preserved", 0>>)
  ELSE LET d == FirstDiff(src, exp, c.nq) IN
       IF d = -1 THEN <<"ok", "", Len(src)>> ELSE <<"fail", "different-unitary", d>>

Verdict(c) ==
  CASE IOEnv.PROP = "C11" -> C11(c)
    [] IOEnv.PROP = "C13" -> C13(c)
    [] IOEnv.PROP = "C12" -> C12(c)
    [] IOEnv.PROP = "C14" -> C14(c)

Init == i = 1
Next == /\ i <= Len(Cases)
        /\ PrintT(<<"V", Cases[i].id, Verdict(Cases[i])>>)
        /\ i' = i + 1
Spec == Init /\ [][Next]_i
=============================================================================

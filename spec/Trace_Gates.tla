---------------------------- MODULE Trace_Gates ----------------------------
(***************************************************************************)
(* Validation of recorded gate-level operations of the real library against *)
(* the contract layer (Circuit, BoolSem, QSim).  IOEnv.PROP selects the     *)
(* property:                                                                *)
(*  C11  decompile(circuit): sections, index ranges, expressions            *)
(*  C12  circuit_boolean_optimizer(circuit)                                 *)
(*  C13  exporters: neutral gate list read back from the exported artefact   *)
(*  C14  composition operators on QCircuit objects                          *)
(***************************************************************************)
EXTENDS Circuit, QSim, TLC, Json, IOUtils

Cases == JsonDeserialize(IOEnv.CASES)
VARIABLE i

MinOf(S) == CHOOSE x \in S : \A y \in S : x <= y
NonBar(gs) == SelectSeq(gs, LAMBDA g : g.k # "BAR")
\* what a gate does, ignoring which library class/object it is
Core(g) == [k |-> g.k, w |-> g.w, m |-> IF g.k \in {"P", "MCP"} THEN g.m ELSE 0]
Cores(gs) == [j \in 1..Len(gs) |-> Core(gs[j])]
IsCl(g) == g.k \in {"X", "MCX"}

---------------------------------------------------------------------------
(* C11.  case: gates, nq, names (name of qubit q as used in expressions),   *)
(* sections = << [s, e, gates, exprs] >>, exc                               *)
SectionOK(c, sec) ==
  LET inrange == SubSeq(c.gates, sec.s + 1, sec.e)              \* gates[s .. e)
      U == Rows(c.nq)
      v0 == [q \in 1..c.nq |-> SymRows(U, q - 1)]
      env0 == [n \in {c.names[q] : q \in 1..c.nq} |-> SymRows(U, (CHOOSE q \in 1..c.nq : c.names[q] = n) - 1)]
      fin == Run(sec.gates, v0, U)
      ex(q) == {j \in 1..Len(sec.exprs) : sec.exprs[j][1] = c.names[q]}
      prev == {j \in 1..sec.s : c.gates[j].k # "BAR"}           \* non-barrier gates before the range
      nxt  == {j \in (sec.e + 1)..Len(c.gates) : c.gates[j].k # "BAR"}
  IN
  IF sec.s < 0 \/ sec.e > Len(c.gates) \/ sec.s >= sec.e THEN "index-range-out-of-bounds"
  ELSE IF Cores(NonBar(inrange)) # Cores(NonBar(sec.gates)) THEN "index-range-does-not-cover-exactly-the-section-gates"
  ELSE IF \E j \in 1..Len(sec.gates) : ~IsCl(sec.gates[j]) /\ sec.gates[j].k # "BAR" THEN "non-classical-gate-in-section"
  ELSE IF prev # {} /\ IsCl(c.gates[CHOOSE j \in prev : \A k \in prev : k <= j]) THEN "section-not-maximal-at-start"
  ELSE IF nxt # {} /\ IsCl(c.gates[MinOf(nxt)]) THEN "section-not-maximal-at-end"
  ELSE IF \E j \in 1..Len(sec.exprs) : \E n \in FreeSyms(sec.exprs[j][2]) : n \notin DOMAIN env0 THEN "expression-mentions-unknown-qubit"
  ELSE IF \E q \in 1..c.nq : Cardinality(ex(q)) > 1 THEN "two-expressions-for-one-qubit"
  ELSE IF \E q \in 1..c.nq : ex(q) # {} /\ fin[q] # Sem(sec.exprs[CHOOSE j \in ex(q) : TRUE][2], env0, U) THEN "expression-differs-from-gates"
  ELSE IF \E q \in 1..c.nq : ex(q) = {} /\ fin[q] # v0[q] THEN "changed-qubit-without-expression"
  ELSE "ok"

C11(c) ==
  IF c.exc # "" THEN <<"fail", "decompile-raised", 0>>
  ELSE
  LET bad == {k \in 1..Len(c.sections) : SectionOK(c, c.sections[k]) # "ok"}
      covered(j) == {k \in 1..Len(c.sections) : c.sections[k].s < j /\ j <= c.sections[k].e}
      cl == {j \in 1..Len(c.gates) : IsCl(c.gates[j])}
  IN IF bad # {} THEN <<"fail", SectionOK(c, c.sections[MinOf(bad)]), MinOf(bad) - 1>>
     ELSE IF \E j \in cl : Cardinality(covered(j)) # 1 THEN <<"fail", "classical-gate-not-in-exactly-one-section", MinOf({j \in cl : Cardinality(covered(j)) # 1}) - 1>>
     ELSE <<"ok", "", Len(c.sections)>>

---------------------------------------------------------------------------
(* C12.  case: gin (input gates), gin_after, gout, nq, nq_out, exc          *)
C12(c) ==
  IF c.exc # "" THEN <<"fail", "optimizer-raised", 0>>
  ELSE IF Cores(c.gin) # Cores(c.gin_after) THEN <<"fail", "input-circuit-modified", 0>>
  ELSE IF c.nq_out # c.nq THEN <<"fail", "qubit-count-changed", c.nq_out>>
  ELSE IF ~WellFormed(c.gout, c.nq) THEN <<"fail", "output-gate-malformed", 0>>
  ELSE IF Len(NonBar(c.gout)) > Len(NonBar(c.gin)) THEN <<"fail", "more-gates-than-original", Len(NonBar(c.gout))>>
  ELSE IF AnyOpaque(c.gin) \/ AnyOpaque(c.gout) THEN <<"skip", "opaque-gate", 0>>
  ELSE LET d == FirstDiff(c.gin, c.gout, c.nq) IN
       IF d = -1 THEN <<"ok", "", Len(NonBar(c.gin)) - Len(NonBar(c.gout))>> ELSE <<"fail", "different-unitary", d>>

Verdict(c) ==
  CASE IOEnv.PROP = "C11" -> C11(c)
    [] IOEnv.PROP = "C12" -> C12(c)

Init == i = 1
Next == /\ i <= Len(Cases)
        /\ PrintT(<<"V", Cases[i].id, Verdict(Cases[i])>>)
        /\ i' = i + 1
Spec == Init /\ [][Next]_i
=============================================================================

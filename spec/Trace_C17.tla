------------------------------ MODULE Trace_C17 ------------------------------
(***************************************************************************)
(* C17: the command-line tools print what the library computes.             *)
(* case (kind "bexp"): inputs (argument bits of the selected function),     *)
(*   rets, exprs (the selected function's expression list, compiled         *)
(*   independently by the harness), printed (the expression the tool        *)
(*   printed, parsed back to a BoolSem tree), parse_exc, tool_exc           *)
(* case (kind "dimacs"): inputs, rets, exprs, nvars, nclauses (header),     *)
(*   clauses (sequences of non-zero integers)                               *)
(* case (kind "qasm"): printed / expected: gate lists read from the tool's  *)
(*   output and from the library's own QASM export of the same function,    *)
(*   plus formals / call / version of both                                  *)
(***************************************************************************)
EXTENDS BoolSem, TLC, Json, IOUtils

Cases == JsonDeserialize(IOEnv.CASES)
VARIABLE i

MinOf(S) == CHOOSE x \in S : \A y \in S : x <= y

\* rows on which every return bit of the selected function is true
Conj(c, U) ==
  LET live == Live(c.exprs, {c.rets[b] : b \in 1..Len(c.rets)})
      env == SemList(live, c.inputs, U)
      RECURSIVE F(_) F(b) == IF b > Len(c.rets) THEN U ELSE env[c.rets[b]] \cap F(b + 1)
  IN F(1)

Bexp(c) ==
  LET U == Rows(Len(c.inputs)) IN
  IF c.tool_exc # "" THEN <<"fail", "tool-raised", 0>>
  ELSE IF c.parse_exc # "" THEN <<"fail", "output-is-not-a-boolean-expression", 0>>
  ELSE IF Unbound(Live(c.exprs, {c.rets[b] : b \in 1..Len(c.rets)}), c.inputs) # {} THEN <<"skip", "function-not-closed", 0>>
  ELSE IF FreeSyms(c.printed) \ {c.inputs[k] : k \in 1..Len(c.inputs)} # {} THEN <<"fail", "mentions-a-symbol-that-is-not-an-argument-bit", 0>>
  ELSE LET a == Sem(c.printed, InputEnv(c.inputs, U), U)  b == Conj(c, U) IN
       IF a = b THEN <<"ok", "", Cardinality(U)>> ELSE <<"fail", "not-equivalent-to-the-conjunction-of-the-return-bits", MinOf(SD(a, b))>>

\* all injective maps from 1..n into 1..m as sequences
RECURSIVE Inj(_, _)
Inj(n, M) == IF n = 0 THEN {<<>>} ELSE UNION {{Append(f, x) : x \in M \ {f[k] : k \in 1..Len(f)}} : f \in Inj(n - 1, M)}

Dimacs(c) ==
  LET n == Len(c.inputs)  U == Rows(n) IN
  IF c.tool_exc # "" THEN <<"fail", "tool-raised", 0>>
  ELSE IF c.parse_exc # "" THEN <<"fail", "output-is-not-dimacs", 0>>
  ELSE IF c.nclauses # Len(c.clauses) THEN <<"fail", "header-clause-count", Len(c.clauses)>>
  ELSE IF \E j \in 1..Len(c.clauses) : \E k \in 1..Len(c.clauses[j]) : c.clauses[j][k] = 0 \/ c.clauses[j][k] > c.nvars \/ c.clauses[j][k] < -c.nvars
       THEN <<"fail", "literal-out-of-range", 0>>
  ELSE IF c.nvars > n THEN <<"fail", "more-variables-than-argument-bits", c.nvars>>
  ELSE IF n > 7 THEN <<"skip", "too-many-inputs", n>>
  ELSE
  LET target == Conj(c, U)
      \* models of the clause set when variable v is input bit f[v] (1-based), other inputs free
      Lit(r, f, l) == IF l > 0 THEN BitOf(r, f[l] - 1) ELSE ~BitOf(r, f[-l] - 1)
      Models(f) == {r \in U : \A j \in 1..Len(c.clauses) : \E k \in 1..Len(c.clauses[j]) : Lit(r, f, c.clauses[j][k])}
  IN IF \E f \in Inj(c.nvars, 1..n) : Models(f) = target THEN <<"ok", "", Cardinality(U)>>
     ELSE <<"fail", "no-variable-numbering-gives-the-same-satisfying-assignments", 0>>

Qasm(c) ==
  IF c.tool_exc # "" THEN <<"fail", "tool-raised", 0>>
  ELSE IF c.parse_exc # "" THEN <<"fail", "output-is-not-qasm", 0>>
  ELSE IF c.printed_version # c.want_version THEN <<"fail", "qasm-version", 0>>
  ELSE IF c.printed # c.expected THEN <<"fail", "differs-from-the-qasm-export-of-the-selected-function", 0>>
  ELSE IF c.printed_call # c.expected_call \/ c.printed_formals # c.expected_formals THEN <<"fail", "declaration-or-call-differs", 0>>
  ELSE <<"ok", "", Len(c.printed)>>

Verdict(c) == CASE c.kind = "bexp" -> Bexp(c) [] c.kind = "dimacs" -> Dimacs(c) [] c.kind = "qasm" -> Qasm(c)

Init == i = 1
Next == /\ i <= Len(Cases)
        /\ PrintT(<<"V", Cases[i].id, Verdict(Cases[i])>>)
        /\ i' = i + 1
Spec == Init /\ [][Next]_i
=============================================================================

------------------------------ MODULE ProgGen ------------------------------
(***************************************************************************)
(* Generator specification: behaviours are typed PROGRAMS of the documented *)
(* Python subset, built token by token.  A state holds                      *)
(*   stack   typed expression nodes under construction (postfix machine)    *)
(*   stmts   the statements completed so far (a sequence of block frames:   *)
(*           function body, an open if-body / else-body, an open for-body)  *)
(*   scope   variables that may be read: name -> kind                       *)
(*   done    the finished FunctionDef node (JSON ast, PySem vocabulary)     *)
(* Expression actions push variables/constants and combine the top of the   *)
(* stack with every operator of the subset; statement actions consume the   *)
(* top of the stack (assign, augmented assign, open/close if / else / for,  *)
(* return).  BFS enumerates ALL programs up to MaxTok tokens; -simulate     *)
(* samples deep ones.  The Emit invariant prints each finished program;     *)
(* the harness renders it to source text and feeds it to the real library.  *)
(*                                                                         *)
(* kinds: "b" bool, "i" unsigned integer (any width), "f" fixed point (one  *)
(* layout per signature), "lb"/"li" list of bool / of integers, "t" the     *)
(* tuple argument                                                           *)
(***************************************************************************)
EXTENDS AstLib, FiniteSets, TLC, Json

CONSTANTS MaxTok,       \* bound on tokens (expression + statement actions)
          MaxStack,     \* bound on expression stack depth
          MaxStmts,     \* bound on statements
          SigId,        \* which signature (see Sig)
          Stmts,        \* TRUE: statement templates enabled; FALSE: single return expression
          Lean          \* TRUE: only variables and one operator per kind in expressions, so that BFS reaches
                        \* deep STATEMENT structure (swap-then-use, if/else, loops) within the token bound

VARIABLES stack, frames, scope, ntok, nst, done

vars == <<stack, frames, scope, ntok, nst, done>>

TChar == [t |-> "char", w |-> 8]
CS(ch, code) == [T |-> "Constant", value |-> [T |-> "str", v |-> ch, code |-> code]]
\* signature: sequence of [name, tdesc, kind]; ints of mixed widths on purpose
Sig ==
  CASE SigId = 1 -> << [n |-> "a", d |-> TInt(2), k |-> "i"], [n |-> "b", d |-> TInt(4), k |-> "i"], [n |-> "c", d |-> TBool, k |-> "b"] >>
    [] SigId = 2 -> << [n |-> "a", d |-> TInt(3), k |-> "i"], [n |-> "b", d |-> TInt(3), k |-> "i"], [n |-> "c", d |-> TBool, k |-> "b"] >>
    [] SigId = 3 -> << [n |-> "a", d |-> TInt(2), k |-> "i"], [n |-> "l", d |-> TList(TInt(2), 3), k |-> "li"] >>
    [] SigId = 4 -> << [n |-> "c", d |-> TBool, k |-> "b"], [n |-> "l", d |-> TList(TBool, 3), k |-> "lb"], [n |-> "a", d |-> TInt(2), k |-> "i"] >>
    [] SigId = 5 -> << [n |-> "x", d |-> TFix(2, 2), k |-> "f"], [n |-> "y", d |-> TFix(2, 2), k |-> "f"], [n |-> "c", d |-> TBool, k |-> "b"] >>
    [] SigId = 6 -> << [n |-> "t", d |-> TTup(<<TInt(2), TBool, TInt(3)>>), k |-> "t"], [n |-> "a", d |-> TInt(2), k |-> "i"] >>
    [] SigId = 7 -> << [n |-> "a", d |-> TInt(4), k |-> "i"], [n |-> "b", d |-> TInt(2), k |-> "i"], [n |-> "d", d |-> TInt(4), k |-> "i"] >>
    [] SigId = 8 -> << [n |-> "a", d |-> TInt(2), k |-> "i"], [n |-> "b", d |-> TInt(2), k |-> "i"], [n |-> "c", d |-> TBool, k |-> "b"], [n |-> "e", d |-> TBool, k |-> "b"] >>
    [] SigId = 9 -> << [n |-> "h", d |-> TChar, k |-> "c"], [n |-> "a", d |-> TInt(2), k |-> "i"] >>
    [] SigId = 10 -> << [n |-> "m", d |-> TList(TList(TBool, 2), 2), k |-> "mb"], [n |-> "a", d |-> TInt(2), k |-> "i"], [n |-> "b", d |-> TInt(2), k |-> "i"] >>
    [] SigId = 11 -> << [n |-> "t", d |-> TTup(<<TInt(2), TTup(<<TBool, TInt(2)>>)>>), k |-> "tt"], [n |-> "c", d |-> TBool, k |-> "b"] >>
    [] SigId = 12 -> << [n |-> "m", d |-> TList(TList(TBool, 3), 2), k |-> "mb"], [n |-> "a", d |-> TInt(2), k |-> "i"], [n |-> "b", d |-> TInt(2), k |-> "i"] >>
    [] SigId = 13 -> << [n |-> "t", d |-> TTup(<<TInt(2), TBool>>), k |-> "tp"], [n |-> "s", d |-> TTup(<<TInt(2), TBool>>), k |-> "tp"], [n |-> "a", d |-> TInt(2), k |-> "i"] >>

FixI == 2
FixF == 2

CastFix(num, den) == [T |-> "Call", func |-> Name("Qfixed" \o ToString(FixI) \o "_" \o ToString(FixF)),
                      args |-> <<CF(num, den)>>, keywords |-> <<>>, cast |-> TFix(FixI, FixF)]
E(n, k, hv) == [n |-> n, k |-> k, hv |-> hv]      \* stack entry: node, kind, mentions a variable
Top(j) == stack[Len(stack) - j]
Drop(j) == SubSeq(stack, 1, Len(stack) - j)
Push(e) == stack' = Append(stack, e)
Repl(j, e) == stack' = Append(Drop(j), e)

IntConsts == {0, 1, 2, 3, 5, 6, 9}
ShiftConsts == {1, 2}
ModConsts == {2, 4, 3}

InScope == {n \in DOMAIN scope : TRUE}

\* ---------------------------------------------------------------- expression actions
PushVar == \E n \in DOMAIN scope : scope[n] \in {"b", "i", "f", "li", "lb", "t", "ic", "c", "mb", "tt", "tp"} /\
              Push(E(Name(n), IF scope[n] = "ic" THEN "i" ELSE scope[n], TRUE))
PushConst == \/ \E v \in IntConsts : Push(E(CI(v), "i", FALSE))
             \/ \E b \in BOOLEAN : Push(E(CB(b), "b", FALSE))
             \/ (\E n \in DOMAIN scope : scope[n] = "f") /\ \E q \in {<<1, 2>>, <<3, 4>>, <<5, 4>>} : Push(E(CastFix(q[1], q[2]), "f", FALSE))

IntBin == /\ Len(stack) >= 2 /\ Top(0).k = "i" /\ Top(1).k = "i" /\ (Top(0).hv \/ Top(1).hv)
          /\ \E op \in {"Add", "Sub", "Mult", "BitAnd", "BitOr", "BitXor"} :
                Repl(2, E(Bin(op, Top(1).n, Top(0).n), "i", TRUE))
IntShift == /\ Len(stack) >= 1 /\ Top(0).k = "i" /\ Top(0).hv
            /\ \E op \in {"LShift", "RShift"}, s \in ShiftConsts : Repl(1, E(Bin(op, Top(0).n, CI(s)), "i", TRUE))
IntMod == /\ Len(stack) >= 1 /\ Top(0).k = "i" /\ Top(0).hv
          /\ \E m \in ModConsts : Repl(1, E(Bin("Mod", Top(0).n, CI(m)), "i", TRUE))
IntInv == /\ Len(stack) >= 1 /\ Top(0).k = "i" /\ Top(0).hv /\ Top(0).n.T # "UnaryOp"
          /\ Repl(1, E(Un("Invert", Top(0).n), "i", TRUE))
IntPow == /\ Len(stack) >= 1 /\ Top(0).k = "i" /\ Top(0).hv /\ Top(0).n.T = "Name"
          /\ \E p \in {2, 3} : Repl(1, E(Bin("Pow", Top(0).n, CI(p)), "i", TRUE))
IntCmp == /\ Len(stack) >= 2 /\ Top(0).k = Top(1).k /\ Top(0).k \in {"i", "f"} /\ (Top(0).hv \/ Top(1).hv)
          /\ \E op \in {"Eq", "NotEq", "Lt", "LtE", "Gt", "GtE"} :
                Repl(2, E(Cmp(op, Top(1).n, Top(0).n), "b", TRUE))
BoolCmp == /\ Len(stack) >= 2 /\ Top(0).k = "b" /\ Top(1).k = "b" /\ (Top(0).hv \/ Top(1).hv)
           /\ \E op \in {"Eq", "NotEq"} : Repl(2, E(Cmp(op, Top(1).n, Top(0).n), "b", TRUE))
BoolBin == /\ Len(stack) >= 2 /\ Top(0).k = "b" /\ Top(1).k = "b" /\ (Top(0).hv \/ Top(1).hv)
           /\ \/ \E op \in {"And", "Or"} : Repl(2, E(BoolOpN(op, <<Top(1).n, Top(0).n>>), "b", TRUE))
              \/ \E op \in {"BitXor", "BitAnd", "BitOr"} : Repl(2, E(Bin(op, Top(1).n, Top(0).n), "b", TRUE))
BoolTern == /\ Len(stack) >= 3 /\ Top(0).k = "b" /\ Top(1).k = "b" /\ Top(2).k = "b" /\ (Top(0).hv \/ Top(1).hv \/ Top(2).hv)
            /\ \E op \in {"And", "Or"} : Repl(3, E(BoolOpN(op, <<Top(2).n, Top(1).n, Top(0).n>>), "b", TRUE))
BoolNot == /\ Len(stack) >= 1 /\ Top(0).k = "b" /\ Top(0).hv /\ Top(0).n.T # "UnaryOp"
           /\ Repl(1, E(Un("Not", Top(0).n), "b", TRUE))
IfExpr == /\ Len(stack) >= 3 /\ Top(2).k = "b" /\ Top(2).hv /\ Top(1).k = Top(0).k /\ Top(0).k \in {"b", "i", "f"}
          /\ Repl(3, E(IfE(Top(2).n, Top(1).n, Top(0).n), Top(0).k, TRUE))
MinMax2 == /\ Len(stack) >= 2 /\ Top(0).k = "i" /\ Top(1).k = "i" /\ (Top(0).hv \/ Top(1).hv)
           /\ \E f \in {"min", "max"} : Repl(2, E(Call2(f, Top(1).n, Top(0).n), "i", TRUE))
BitSel == /\ Len(stack) >= 1 /\ Top(0).k = "i" /\ Top(0).n.T = "Name" /\ Top(0).hv
          /\ \E j \in {0, 1} : Repl(1, E(Sub(Top(0).n, CI(j)), "b", TRUE))
FixBin == /\ Len(stack) >= 2 /\ Top(0).k = "f" /\ Top(1).k = "f" /\ (Top(0).hv \/ Top(1).hv)
          /\ \E op \in {"Add", "Sub"} : Repl(2, E(Bin(op, Top(1).n, Top(0).n), "f", TRUE))
FixMul == /\ Len(stack) >= 1 /\ Top(0).k = "f" /\ Top(0).hv
          /\ \E m \in {2, 3} : Repl(1, E(Bin("Mult", Top(0).n, CI(m)), "f", TRUE))
FixConv == /\ Len(stack) >= 1 /\ Top(0).hv
           /\ \/ Top(0).k = "f" /\ Repl(1, E(Call1("int", Top(0).n), "i", TRUE))
              \/ Top(0).k = "i" /\ Top(0).n.T = "Name" /\ (\E n \in DOMAIN scope : scope[n] = "f")
                 /\ Repl(1, E(Call1("float", Top(0).n), "f", TRUE))
\* lists and tuples
ListOps == /\ Len(stack) >= 1 /\ Top(0).k \in {"li", "lb"} /\ Top(0).n.T = "Name"
           /\ \/ Repl(1, E(Call1("len", Top(0).n), "i", FALSE))
              \/ \E j \in {0, 2} : Repl(1, E(Sub(Top(0).n, CI(j)), IF Top(0).k = "li" THEN "i" ELSE "b", TRUE))
              \/ Top(0).k = "li" /\ \E f \in {"sum", "max", "min"} : Repl(1, E(Call1(f, Top(0).n), "i", TRUE))
              \/ Top(0).k = "lb" /\ \E f \in {"all", "any"} : Repl(1, E(Call1(f, Top(0).n), "b", TRUE))
IntVars == {n \in DOMAIN scope : scope[n] \in {"i", "ic"}}
ListIdx == /\ Len(stack) >= 1 /\ Top(0).k \in {"li", "lb"} /\ Top(0).n.T = "Name"
           /\ \E x \in IntVars : Repl(1, E(Sub(Top(0).n, Name(x)), IF Top(0).k = "li" THEN "i" ELSE "b", TRUE))
ConstListIdx == /\ Len(stack) >= 1 /\ Top(0).k = "i" /\ Top(0).n.T = "Name" /\ Top(0).hv
                /\ \E L \in {<<1, 2, 3, 2>>, <<0, 3, 1, 1>>} :
                     Repl(1, E(Sub([T |-> "Tuple", elts |-> [j \in 1..Len(L) |-> CI(L[j])]], Top(0).n), "i", TRUE))
TupSel == /\ Len(stack) >= 1 /\ Top(0).k = "t" /\ Top(0).n.T = "Name"
          /\ \/ Repl(1, E(Sub(Top(0).n, CI(0)), "i", TRUE))
             \/ Repl(1, E(Sub(Top(0).n, CI(1)), "b", TRUE))
             \/ Repl(1, E(Sub(Top(0).n, CI(2)), "i", TRUE))

LeanBin == /\ Len(stack) >= 2 /\ Top(0).k = Top(1).k /\ Top(0).k \in {"i", "b"} /\ (Top(0).hv \/ Top(1).hv)
           /\ Repl(2, E(Bin(IF Top(0).k = "i" THEN "Add" ELSE "BitXor", Top(1).n, Top(0).n), Top(0).k, TRUE))
LeanCmp == /\ Len(stack) >= 2 /\ Top(0).k = "i" /\ Top(1).k = "i" /\ (Top(0).hv \/ Top(1).hv)
           /\ \E op \in {"Gt", "GtE", "LtE"} : Repl(2, E(Cmp(op, Top(1).n, Top(0).n), "b", TRUE))
LeanStep == /\ Len(stack) < MaxStack + 1
            /\ (PushVar \/ LeanBin \/ LeanCmp \/ \E v \in {1} : Push(E(CI(v), "i", FALSE)))
            /\ UNCHANGED <<frames, scope, nst, done>>

CharOps == /\ Len(stack) >= 1 /\ Top(0).k = "c" /\ Top(0).hv
           /\ \/ \E q \in {<<"a", 97>>, <<"z", 122>>, <<"A", 65>>} : \E op \in {"Eq", "NotEq"} :
                    Repl(1, E(Cmp(op, Top(0).n, CS(q[1], q[2])), "b", TRUE))
              \/ Top(0).n.T = "Name" /\ Repl(1, E(Call1("ord", Top(0).n), "c", TRUE))
              \/ Top(0).n.T = "Name" /\ Repl(1, E(Cmp("Eq", Call1("ord", Top(0).n), CI(97)), "b", TRUE))
CharIf == /\ Len(stack) >= 2 /\ Top(1).k = "b" /\ Top(1).hv /\ Top(0).k = "c"
          /\ Repl(2, E(IfE(Top(1).n, Top(0).n, CS("x", 120)), "c", TRUE))
MatOps == /\ Len(stack) >= 1 /\ Top(0).k = "mb" /\ Top(0).n.T = "Name"
          /\ \/ \E r \in {0, 1}, cc \in (IF SigId = 12 THEN {0, 1, 2} ELSE {0, 1}) : Repl(1, E(Sub(Sub(Top(0).n, CI(r)), CI(cc)), "b", TRUE))
             \/ Repl(1, E(Call1("len", Top(0).n), "i", FALSE))
             \/ \E r \in {0, 1} : Repl(1, E(Sub(Top(0).n, CI(r)), "lb", TRUE))
MatIdx == /\ Len(stack) >= 1 /\ Top(0).k = "mb" /\ Top(0).n.T = "Name"
          /\ \E x, y \in IntVars : Repl(1, E(Sub(Sub(Top(0).n, Name(x)), Name(y)), "b", TRUE))
\* whole-tuple comparison (two tuple arguments, or a tuple and a display of scalars) and element selection
TupCmp == /\ Len(stack) >= 2 /\ Top(0).k = "tp" /\ Top(1).k = "tp"
          /\ \E op \in {"Eq", "NotEq"} : Repl(2, E(Cmp(op, Top(1).n, Top(0).n), "b", TRUE))
TupDisp == /\ Len(stack) >= 2 /\ Top(1).k = "i" /\ Top(0).k = "b" /\ (Top(0).hv \/ Top(1).hv)
           /\ Repl(2, E([T |-> "Tuple", elts |-> <<Top(1).n, Top(0).n>>], "tp", TRUE))
TupSel2 == /\ Len(stack) >= 1 /\ Top(0).k = "tp" /\ Top(0).n.T = "Name"
           /\ (Repl(1, E(Sub(Top(0).n, CI(0)), "i", TRUE)) \/ Repl(1, E(Sub(Top(0).n, CI(1)), "b", TRUE)))
NestSel == /\ Len(stack) >= 1 /\ Top(0).k = "tt" /\ Top(0).n.T = "Name"
           /\ \/ Repl(1, E(Sub(Top(0).n, CI(0)), "i", TRUE))
              \/ Repl(1, E(Sub(Sub(Top(0).n, CI(1)), CI(0)), "b", TRUE))
              \/ Repl(1, E(Sub(Sub(Top(0).n, CI(1)), CI(1)), "i", TRUE))

ExprStep == /\ ~Lean /\ Len(stack) < MaxStack + 1
            /\ \/ PushVar \/ PushConst \/ IntBin \/ IntShift \/ IntMod \/ IntInv \/ IntPow \/ IntCmp \/ BoolCmp
               \/ BoolBin \/ BoolTern \/ BoolNot \/ IfExpr \/ MinMax2 \/ BitSel \/ FixBin \/ FixMul \/ FixConv
               \/ ListOps \/ ListIdx \/ ConstListIdx \/ TupSel \/ CharOps \/ CharIf \/ MatOps \/ MatIdx \/ NestSel \/ TupCmp \/ TupDisp \/ TupSel2
            /\ UNCHANGED <<frames, scope, nst, done>>

\* ---------------------------------------------------------------- statement actions
\* frames: sequence of [kind, stmts, ...]; the last frame is the innermost open block
CurFrame == frames[Len(frames)]
AddStmt(s) == frames' = [frames EXCEPT ![Len(frames)].stmts = Append(@, s)]
InIf == \E j \in 1..Len(frames) : frames[j].kind \in {"if", "else"}
Scalar(k) == k \in {"b", "i", "f", "c"}
NewNames == {"u", "v", "w"}
NameSeq == <<"u", "v", "w">>
HasVarExpr == Len(stack) = 1 /\ Top(0).hv

\* loop variables: i for the outer loop, j for a loop nested in it
LoopVar == IF "i" \in DOMAIN scope THEN "j" ELSE "i"

\* x = e   (new variable only outside an if; inside an if only existing variables of the same kind)
StAssign == /\ Len(stack) = 1 /\ Scalar(Top(0).k) /\ nst < MaxStmts
            /\ \/ /\ ~InIf
                  /\ \E j \in 1..Len(NameSeq) : LET n == NameSeq[j] IN
                       /\ n \notin DOMAIN scope /\ (\A m \in 1..(j-1) : NameSeq[m] \in DOMAIN scope)   \* canonical fresh name
                       /\ AddStmt(Assign(n, Top(0).n))
                       /\ scope' = [x \in DOMAIN scope \cup {n} |-> IF x = n THEN Top(0).k ELSE scope[x]]
               \/ /\ \E n \in DOMAIN scope : scope[n] = Top(0).k /\ n \in NewNames
                       /\ (Top(0).hv \/ InIf)
                       /\ AddStmt(Assign(n, Top(0).n)) /\ UNCHANGED scope
            /\ stack' = <<>> /\ nst' = nst + 1 /\ UNCHANGED done
StAug == /\ Len(stack) = 1 /\ Top(0).k \in {"i", "b", "f"} /\ nst < MaxStmts
         /\ \E n \in DOMAIN scope : n \in NewNames /\ scope[n] = Top(0).k
              /\ \E op \in (IF Top(0).k = "i" THEN {"Add", "Sub", "BitXor", "BitOr"} ELSE IF Top(0).k = "f" THEN {"Add"} ELSE {"BitXor", "BitOr", "BitAnd"}) :
                   AddStmt(Aug(n, op, Top(0).n))
         /\ stack' = <<>> /\ nst' = nst + 1 /\ UNCHANGED <<scope, done>>
\* a, b = b, a  style simultaneous assignment of two existing/new variables of one kind
StSwap == /\ Len(stack) = 2 /\ Top(0).k = Top(1).k /\ Scalar(Top(0).k) /\ ~InIf /\ nst < MaxStmts
          /\ "u" \notin DOMAIN scope /\ "v" \notin DOMAIN scope
          /\ frames' = [frames EXCEPT ![Len(frames)].stmts = @ \o
               << [T |-> "Assign", targets |-> <<[T |-> "Tuple", elts |-> <<Name("u"), Name("v")>>]>>,
                   value |-> [T |-> "Tuple", elts |-> <<Top(1).n, Top(0).n>>]],
                  [T |-> "Assign", targets |-> <<[T |-> "Tuple", elts |-> <<Name("u"), Name("v")>>]>>,
                   value |-> [T |-> "Tuple", elts |-> <<Name("v"), Bin(IF Top(0).k = "b" THEN "BitXor" ELSE "Add", Name("u"), Name("v"))>>]] >>]
          /\ scope' = [x \in DOMAIN scope \cup {"u", "v"} |-> IF x \in {"u", "v"} THEN Top(0).k ELSE scope[x]]
          /\ stack' = <<>> /\ nst' = nst + 2 /\ UNCHANGED done
StIfOpen == /\ Len(stack) = 1 /\ Top(0).k = "b" /\ Top(0).hv /\ nst < MaxStmts
            /\ (~InIf \/ (CurFrame.kind = "else" /\ Len(CurFrame.stmts) = 0 /\ Cardinality({j \in 1..Len(frames) : frames[j].kind \in {"if", "else"}}) = 1))
            /\ \E n \in DOMAIN scope : n \in NewNames                      \* something to assign to
            /\ frames' = Append(frames, [kind |-> "if", test |-> Top(0).n, stmts |-> <<>>, body |-> <<>>])
            /\ stack' = <<>> /\ nst' = nst + 1 /\ UNCHANGED <<scope, done>>
StElse == /\ stack = <<>> /\ CurFrame.kind = "if" /\ Len(CurFrame.stmts) > 0
          /\ frames' = [frames EXCEPT ![Len(frames)] = [kind |-> "else", test |-> @.test, body |-> @.stmts, stmts |-> <<>>]]
          /\ UNCHANGED <<stack, scope, nst, done>>
StIfClose == /\ stack = <<>> /\ CurFrame.kind \in {"if", "else"} /\ Len(CurFrame.stmts) > 0
             /\ LET f == CurFrame
                    node == IF f.kind = "if" THEN [T |-> "If", test |-> f.test, body |-> f.stmts, orelse |-> <<>>]
                            ELSE [T |-> "If", test |-> f.test, body |-> f.body, orelse |-> f.stmts]
                IN frames' = [SubSeq(frames, 1, Len(frames) - 1) EXCEPT ![Len(frames) - 1].stmts = Append(@, node)]
             /\ UNCHANGED <<stack, scope, nst, done>>
StForOpen == /\ stack = <<>> /\ Len(frames) <= 3 /\ nst < MaxStmts
             /\ LoopVar \notin DOMAIN scope
             /\ \E n \in DOMAIN scope : n \in NewNames
             /\ \/ \E K \in {2, 3} :
                     frames' = Append(frames, [kind |-> "for", var |-> LoopVar, iter |-> [T |-> "Call", func |-> Name("range"), args |-> <<CI(K)>>, keywords |-> <<>>], stmts |-> <<>>])
                     /\ scope' = [x \in DOMAIN scope \cup {LoopVar} |-> IF x = LoopVar THEN "ic" ELSE scope[x]]
                \/ \E l \in DOMAIN scope : scope[l] \in {"li", "lb", "mb"} /\
                     frames' = Append(frames, [kind |-> "for", var |-> LoopVar, iter |-> Name(l), stmts |-> <<>>])
                     /\ scope' = [x \in DOMAIN scope \cup {LoopVar} |-> IF x = LoopVar THEN (IF scope[l] = "li" THEN "i" ELSE IF scope[l] = "lb" THEN "b" ELSE "lb") ELSE scope[x]]
             /\ nst' = nst + 1 /\ UNCHANGED <<stack, done>>
StForClose == /\ stack = <<>> /\ CurFrame.kind = "for" /\ Len(CurFrame.stmts) > 0
              /\ LET f == CurFrame
                     node == [T |-> "For", target |-> Name(f.var), iter |-> f.iter, body |-> f.stmts, orelse |-> <<>>]
                 IN frames' = [SubSeq(frames, 1, Len(frames) - 1) EXCEPT ![Len(frames) - 1].stmts = Append(@, node)]
              /\ scope' = [x \in DOMAIN scope \ {CurFrame.var} |-> scope[x]]
              /\ UNCHANGED <<stack, nst, done>>

RetDescs(k) == IF k = "b" THEN {TBool} ELSE IF k = "c" THEN {TChar} ELSE IF k = "f" THEN {TFix(FixI, FixF)} ELSE {TInt(2), TInt(4), TInt(8), TInt(12)}
StReturn == /\ Len(stack) = 1 /\ Scalar(Top(0).k) /\ Len(frames) = 1 /\ (Top(0).hv \/ nst > 0)
            /\ \E rd \in RetDescs(Top(0).k) :
                 done' = [T |-> "FunctionDef", name |-> "f",
                          args |-> [T |-> "arguments", args |-> [j \in 1..Len(Sig) |-> [T |-> "arg", arg |-> Sig[j].n, tdesc |-> Sig[j].d]]],
                          body |-> Append(frames[1].stmts, Ret(Top(0).n)), rdesc |-> rd]
            /\ stack' = <<>> /\ UNCHANGED <<frames, scope, nst>>

StmtStep == IF Stmts THEN (StAssign \/ StAug \/ StSwap \/ StIfOpen \/ StElse \/ StIfClose \/ StForOpen \/ StForClose \/ StReturn)
            ELSE StReturn

NoDone == [T |-> "none"]
Init == /\ stack = <<>> /\ frames = <<[kind |-> "body", stmts |-> <<>>]>>
        /\ scope = [n \in {Sig[j].n : j \in 1..Len(Sig)} |-> Sig[CHOOSE j \in 1..Len(Sig) : Sig[j].n = n].k]
        /\ ntok = 0 /\ nst = 0 /\ done = NoDone
Next == /\ done = NoDone /\ ntok < MaxTok
        /\ (ExprStep \/ (Lean /\ LeanStep) \/ StmtStep)
        /\ ntok' = ntok + 1
Spec == Init /\ [][Next]_vars

Emit == done # NoDone => PrintT(<<"P", ToJson(done)>>)
=============================================================================

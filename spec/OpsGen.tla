------------------------------- MODULE OpsGen -------------------------------
(***************************************************************************)
(* Generator specification for C14: behaviours are HISTORIES of circuit     *)
(* composition operations over a pool of circuit objects.  The state keeps  *)
(* only what validity of the next operation depends on (how many qubits     *)
(* each object has, whether it supports remove_identities); the harness     *)
(* replays the history on real QCircuit objects and records every object's  *)
(* gate list after every step; spec/Trace_Gates.tla judges the recording.   *)
(***************************************************************************)
EXTENDS Integers, Sequences, FiniteSets, TLC, Json

CONSTANTS MaxOps, MaxObjs
VARIABLES objs, hist

G(cls, k, w, m) == [cls |-> cls, k |-> k, w |-> w, m |-> m]
H(q) == G("H", "H", <<q>>, 0)
X(q) == G("X", "X", <<q>>, 0)
T(q) == G("T", "T", <<q>>, 0)
Z(q) == G("Z", "Z", <<q>>, 0)
CX(a, b) == G("CX", "MCX", <<a, b>>, 0)
BAR == G("Barrier", "BAR", <<>>, 0)
Table == << [nq |-> 2, gs |-> <<H(0), CX(0, 1)>>],
            [nq |-> 2, gs |-> <<T(1), X(0)>>],
            [nq |-> 2, gs |-> <<CX(1, 0), BAR, Z(0)>>],
            [nq |-> 2, gs |-> <<G("CP", "MCP", <<0, 1>>, 2), G("Swap", "SWAP", <<0, 1>>, 0)>>],
            [nq |-> 3, gs |-> <<G("CCX", "MCX", <<0, 1, 2>>, 0), H(2), T(2)>>],
            [nq |-> 3, gs |-> <<X(2), G("CZ", "MCZ", <<2, 0>>, 0), G("S", "S", <<1>>, 0)>>],
            [nq |-> 1, gs |-> <<T(0)>>],
            [nq |-> 2, gs |-> <<>>] >>

\* injective maps of n source qubits into m target qubits, as sequences
Inj(n, m) == {f \in [1..n -> 0..(m - 1)] : \A a, b \in 1..n : a # b => f[a] # f[b]}
Obj == 1..Len(objs)
Step(op, newnq) == /\ hist' = Append(hist, op)
                   /\ objs' = IF newnq >= 0 THEN Append(objs, newnq) ELSE objs

New == /\ Len(objs) < MaxObjs
       /\ \E k \in 1..Len(Table), enh \in BOOLEAN :
            Step([op |-> "new", nq |-> Table[k].nq, gates |-> Table[k].gs, enh |-> enh], Table[k].nq)
AppendCircuit == \E d, s \in Obj : objs[s] <= objs[d] /\ \E f \in Inj(objs[s], objs[d]) :
                    Step([op |-> "append_circuit", dst |-> d - 1, src |-> s - 1, qubits |-> f], -1)
IAdd == \E d, s \in Obj : objs[s] <= objs[d] /\ Step([op |-> "iadd", dst |-> d - 1, src |-> s - 1], -1)
Add == Len(objs) < MaxObjs /\ \E a, b \in Obj : objs[b] <= objs[a] /\ Step([op |-> "add", a |-> a - 1, b |-> b - 1], objs[a])
Repeat == Len(objs) < MaxObjs /\ \E a \in Obj, n \in 0..3 : Step([op |-> "repeat", a |-> a - 1, n |-> n], objs[a])
Copy == Len(objs) < MaxObjs /\ \E a \in Obj, v \in BOOLEAN : Step([op |-> "copy", a |-> a - 1, vanilla |-> v], objs[a])
Gate == \E d \in Obj : \E g \in {X(0), T(0), H(objs[d] - 1)} : Step([op |-> "gate", dst |-> d - 1, g |-> g], -1)
RmId == \E a \in Obj : Step([op |-> "rmid", a |-> a - 1], -1)
\* ancilla bookkeeping of a QCircuitEnhanced (what every compiled function's circuit is): a new marked ancilla, the
\* uncomputation of the marked ones.  The harness ends the history when the object is a plain QCircuit.
Anc == \E d \in Obj : /\ hist' = Append(hist, [op |-> "anc", a |-> d - 1])
                       /\ objs' = [objs EXCEPT ![d] = @ + 1]
Unc == \E d \in Obj : Step([op |-> "uncompute", a |-> d - 1], -1)
QftIqft == \E a \in Obj : \E n \in 1..objs[a] : n <= 4 /\ \E f \in Inj(n, objs[a]) :
              Step([op |-> "qft_iqft", a |-> a - 1, qubits |-> f], -1)

Init == objs = <<>> /\ hist = <<>>
Next == /\ Len(hist) < MaxOps
        /\ IF Len(objs) = 0 THEN New
           ELSE (New \/ AppendCircuit \/ IAdd \/ Add \/ Repeat \/ Copy \/ Gate \/ RmId \/ QftIqft \/ Anc \/ Unc)
Spec == Init /\ [][Next]_<<objs, hist>>
Emit == Len(hist) >= 2 => PrintT(<<"O", ToJson(hist)>>)
=============================================================================

------------------------------- MODULE PairGen -------------------------------
(***************************************************************************)
(* Generator specification for C07: every initial state is one (callee,     *)
(* caller) pair.  Callees come from a table (bool, integer, tuple and list  *)
(* formals, one to three formals); the caller passes every combination of   *)
(* actual-argument shapes: plain variables, the same variable twice,        *)
(* swapped variables, tuple elements, a whole tuple, a tuple display,       *)
(* constants, a nested call; one or two calls per expression; callee and    *)
(* caller names chosen so that renamed callee formals can collide with      *)
(* caller variables.  Field `route` selects how the callee is bound         *)
(* ("defs": passed as defs=[...];  "inline": defined inside the caller).    *)
(***************************************************************************)
EXTENDS AstLib, FiniteSets, TLC, Json

CONSTANT Family
VARIABLE p

I2 == TInt(2)
\* callee table: [name, args <<[n, d]>>, body, rd]
\* callees 8..10 are callees 1..3 whose first formal is NAMED after the callee (g -> g_in, gx): a renaming
\* scheme that looks at name prefixes must not confuse them with already-renamed symbols
FX(k, nm) == IF k = 8 THEN nm \o "_in" ELSE nm \o "x"
Callee(k, nm) ==
  CASE k = 1 -> FunDef(nm, <<Arg("x", TBool), Arg("y", TBool)>>, <<Ret(BoolOpN("And", <<Name("x"), Un("Not", Name("y"))>>))>>, TBool)
    [] k = 8 -> FunDef(nm, <<Arg(FX(8, nm), TBool), Arg("y", TBool)>>, <<Ret(BoolOpN("And", <<Name(FX(8, nm)), Un("Not", Name("y"))>>))>>, TBool)
    [] k = 9 -> FunDef(nm, <<Arg(FX(9, nm), I2)>>, <<Ret(Bin("Add", Name(FX(9, nm)), CI(1)))>>, I2)
    [] k = 10 -> FunDef(nm, <<Arg("x", I2), Arg(FX(10, nm), I2)>>, <<Ret(Cmp("Gt", Name("x"), Name(FX(10, nm))))>>, TBool)
    [] k = 2 -> FunDef(nm, <<Arg("x", I2)>>, <<Ret(Bin("Add", Name("x"), CI(1)))>>, I2)
    [] k = 3 -> FunDef(nm, <<Arg("x", I2), Arg("y", I2)>>, <<Ret(Cmp("Gt", Name("x"), Name("y")))>>, TBool)
    [] k = 4 -> FunDef(nm, <<Arg("q", TTup(<<I2, TBool>>))>>, <<Ret(IfE(Sub(Name("q"), CI(1)), Sub(Name("q"), CI(0)), CI(3)))>>, I2)
    [] k = 5 -> FunDef(nm, <<Arg("l", TList(TBool, 2)), Arg("y", TBool)>>,
                       <<Ret(Bin("BitXor", Bin("BitXor", Sub(Name("l"), CI(0)), Sub(Name("l"), CI(1))), Name("y")))>>, TBool)
    [] k = 6 -> FunDef(nm, <<Arg("x", I2), Arg("y", I2)>>,
                       <<Assign("z", Bin("BitXor", Name("x"), Name("y"))), Assign("z", Bin("Add", Name("z"), Name("x"))), Ret(Name("z"))>>, I2)
    [] k = 7 -> FunDef(nm, <<Arg("x", TBool), Arg("y", TBool), Arg("z", TBool)>>,
                       <<Ret(IfE(Name("x"), Name("y"), Un("Not", Name("z"))))>>, TBool)
    \* callees that RE-ASSIGN a formal after an intermediate has read it (the compression of the callee to its return
    \* expressions must inline the definitions simultaneously)
    [] k = 11 -> FunDef(nm, <<Arg("x", TBool), Arg("y", TBool)>>,
                        <<Assign("c", BoolOpN("And", <<Name("x"), Name("y")>>)), Assign("x", Un("Not", Name("x"))),
                          Ret(BoolOpN("Or", <<Name("c"), BoolOpN("And", <<Name("x"), Name("y")>>)>>))>>, TBool)
    [] k = 12 -> FunDef(nm, <<Arg("x", I2), Arg("y", I2)>>,
                        <<Assign("z", Bin("Add", Name("x"), Name("y"))), Assign("x", Bin("BitXor", Name("z"), Name("x"))),
                          Assign("y", Bin("Add", Name("x"), CI(1))), Ret(Bin("BitXor", Name("y"), Name("z")))>>, I2)
    \* statements AFTER the return statement (never executed)
    [] k = 14 -> FunDef(nm, <<Arg("x", TBool), Arg("y", TBool)>>,
                        <<Ret(BoolOpN("And", <<Name("x"), Un("Not", Name("y"))>>)), Assign("z", Un("Not", Name("x"))), Assign("y", BoolOpN("Or", <<Name("z"), Name("y")>>))>>, TBool)
    \* a predicate of one argument (for equality oracles with a boolean element)
    [] k = 13 -> FunDef(nm, <<Arg("q", TTup(<<I2, TBool>>))>>,
                        <<Ret(BoolOpN("And", <<Sub(Name("q"), CI(1)), Cmp("Gt", Sub(Name("q"), CI(0)), CI(1))>>))>>, TBool)

\* caller signatures by element kind
BoolSig(an, bn) == <<Arg(an, TBool), Arg(bn, TBool), Arg("t", TTup(<<TBool, TBool>>))>>
IntSig(an, bn)  == <<Arg(an, I2), Arg(bn, I2), Arg("t", TTup(<<I2, I2>>)), Arg("s", TTup(<<I2, TBool>>))>>

BoolActuals(an, bn) == {Name(an), Name(bn), Sub(Name("t"), CI(0)), Sub(Name("t"), CI(1)), CB(TRUE)}
IntActuals(an, bn)  == {Name(an), Name(bn), Sub(Name("t"), CI(0)), Sub(Name("t"), CI(1)), Sub(Name("s"), CI(0)), CI(2)}

Names == {<<"g", "a", "b">>, <<"g", "g_x", "x">>, <<"a", "a_y", "b">>, <<"fun", "y", "x">>, <<"max", "a", "b">>}

Pair(callee, sig, body, rd, route) ==
  [callee |-> callee, route |-> route,
   caller |-> FunDef("caller", sig, IF route = "inline" THEN <<callee>> \o body ELSE body, rd)]

PB(nm, fam) ==
  LET BA == BoolActuals(nm[2], nm[3])  IA == IntActuals(nm[2], nm[3])  g == nm[1] IN
  CASE fam = "bool2" ->
         {Pair(Callee(k, g), BoolSig(nm[2], nm[3]), <<Ret(CallN(g, <<x, y>>))>>, TBool, r) :
            k \in {1, 8, 11, 14}, x \in BA, y \in BA, r \in {"defs", "inline"}}
    [] fam = "bool2x2" ->   \* two calls in one expression
         {Pair(Callee(1, g), BoolSig(nm[2], nm[3]),
               <<Ret(BoolOpN("Or", <<CallN(g, <<x, y>>), CallN(g, <<y, Name(nm[2])>>)>>))>>, TBool, "defs") : x \in BA, y \in BA}
    [] fam = "bool3" ->
         {Pair(Callee(7, g), BoolSig(nm[2], nm[3]), <<Ret(CallN(g, <<x, y, z>>))>>, TBool, "defs") :
            x \in BA, y \in BA, z \in {Name(nm[2]), Sub(Name("t"), CI(1))}}
    [] fam = "int1" ->      \* incl. nested call g(g(v)) and call inside arithmetic
         {Pair(Callee(k, g), IntSig(nm[2], nm[3]), <<Ret(e)>>, I2, r) :
            k \in {2, 9}, r \in {"defs", "inline"},
            e \in {CallN(g, <<x>>) : x \in IA}
                 \cup {CallN(g, <<CallN(g, <<x>>)>>) : x \in IA}
                 \cup {Bin("Add", CallN(g, <<x>>), CallN(g, <<Name(nm[3])>>)) : x \in IA}}
    [] fam = "int2" ->
         {Pair(Callee(k, g), IntSig(nm[2], nm[3]), <<Ret(CallN(g, <<x, y>>))>>, IF k \in {3, 10} THEN TBool ELSE I2, r) :
            k \in {3, 6, 10, 12}, x \in IA, y \in IA, r \in {"defs", "inline"}}
    [] fam = "tuple" ->     \* tuple-typed formal: whole tuple variable / tuple display of scalars
         {Pair(Callee(4, g), IntSig(nm[2], nm[3]), <<Ret(CallN(g, <<x>>))>>, I2, r) :
            r \in {"defs", "inline"},
            x \in {Name("s"), Tup(<<Name(nm[2]), Cmp("Eq", Name(nm[3]), CI(1))>>), Tup(<<Sub(Name("t"), CI(1)), CB(TRUE)>>)}}
    [] fam = "list" ->
         {Pair(Callee(5, g), BoolSig(nm[2], nm[3]), <<Ret(CallN(g, <<x, y>>))>>, TBool, r) :
            r \in {"defs", "inline"}, y \in BA,
            x \in {Name("t"), Tup(<<Name(nm[2]), Name(nm[3])>>), Tup(<<Name(nm[3]), Name(nm[3])>>)}}
    [] fam = "shadow" ->    \* an INNER definition whose formal / local has the NAME of a caller variable of another type
                            \* (or of a caller variable that is not a constant); afterwards the caller uses its own variable
         LET TT(n) == TTup([j \in 1..n |-> TBool])
             inner(n) == FunDef(g, <<ArgT("t", TT(n))>>, <<Ret(BoolOpN("And", <<Sub(Name("t"), CI(0)), Un("Not", Sub(Name("t"), CI(n - 1)))>>))>>, TBool)
             acts(m) == {Name(nm[2]), Sub(Name("t"), CI(0)), Sub(Name("t"), CI(m - 1))}
             disp(m, n) == IF n = 2 THEN {Tup(<<x, y>>) : x \in acts(m), y \in acts(m)}
                           ELSE {Tup(<<x, y, Name(nm[2])>>) : x \in acts(m), y \in acts(m)}
             bodies(m, d) ==
               { <<Assign("c", CB(FALSE)), For("e", Name("t"), <<Assign("c", BoolOpN("Or", <<Name("c"), Name("e")>>))>>),
                   Ret(IfE(CallN(g, <<d>>), Un("Not", Name("c")), Name("c")))>>,
                 <<Assign("c", CB(TRUE)), For("e", Name("t"), <<Assign("c", BoolOpN("And", <<Name("c"), Name("e")>>))>>),
                   Ret(IfE(CallN(g, <<d>>), Name("c"), Un("Not", Name("c"))))>>,
                 <<Ret(IfE(CallN(g, <<d>>), Cmp("Eq", Call1("len", Name("t")), CI(m)), Un("Not", Name(nm[2]))))>>,
                 <<Ret(IfE(CallN(g, <<d>>), Un("Not", Sub(Name("t"), CI(m - 1))), Sub(Name("t"), CI(m - 1))))>> }
             kin == FunDef(g, <<Arg("y", I2)>>, <<Assign("k", CI(1)), Ret(Bin("Add", Name("y"), Name("k")))>>, I2)
         IN  UNION {{Pair(inner(mn[2]), <<ArgT("t", TT(mn[1])), Arg(nm[2], TBool)>>, b, TBool, "inline") :
                       b \in UNION {bodies(mn[1], d) : d \in disp(mn[1], mn[2])}} : mn \in {<<3, 2>>, <<2, 3>>, <<4, 2>>}}
             \cup {Pair(kin, <<Arg("k", I2), Arg(nm[2], I2)>>, <<Ret(Bin(op, CallN(g, <<x>>), Name("k")))>>, I2, "inline") :
                     op \in {"Add", "BitXor", "Mult"}, x \in {Name("k"), Name(nm[2]), CI(2)}}
    [] fam = "redef" ->     \* one function NAME bound twice: an inline definition after a passed / an earlier inline one (Python calls
                            \* the latest); with a call between the two definitions
         LET bsig == BoolSig(nm[2], nm[3])  isig == IntSig(nm[2], nm[3]) IN
         {Pair(Callee(k[1], g), bsig, <<Callee(k[2], g), Ret(CallN(g, <<x, y>>))>>, TBool, r) :
            k \in {<<1, 11>>, <<11, 1>>, <<1, 8>>}, x \in {Name(nm[2]), Sub(Name("t"), CI(0))}, y \in {Name(nm[3]), Sub(Name("t"), CI(1))}, r \in {"defs", "inline"}}
         \cup {Pair(Callee(k[1], g), isig, <<Callee(k[2], g), Ret(CallN(g, <<x, y>>))>>, IF k[1] = 3 THEN TBool ELSE I2, r) :
            k \in {<<6, 12>>, <<12, 6>>, <<3, 10>>}, x \in {Name(nm[2]), Sub(Name("t"), CI(0))}, y \in {Name(nm[3]), CI(2)}, r \in {"defs", "inline"}}
         \cup {Pair(Callee(k[1], g), bsig, <<Assign("u", CallN(g, <<Name(nm[2]), Name(nm[3])>>)), Callee(k[2], g),
                                          Ret(Bin("BitXor", Name("u"), CallN(g, <<x, Name(nm[3])>>)))>>, TBool, r) :
            k \in {<<1, 11>>, <<11, 1>>}, x \in {Name(nm[2]), Sub(Name("t"), CI(0))}, r \in {"defs", "inline"}}
         \cup {Pair(Callee(2, g), isig, <<FunDef(g, <<Arg("x", I2)>>, <<Ret(Bin("Add", Name("x"), CI(2)))>>, I2), Ret(CallN(g, <<x>>))>>, I2, r) :
            x \in {Name(nm[2]), Sub(Name("t"), CI(1))}, r \in {"defs", "inline"}}

\* oraclize(g, element): the oracle  v |-> g(v) == element ; callee names include "oracle" itself
Orac == {[callee |-> Callee(k, g), route |-> "oraclize", element |-> e,
          caller |-> FunDef("oracle", <<Arg("v", IF k = 2 THEN I2 ELSE TTup(<<I2, TBool>>))>>,
                            <<Ret(Cmp("Eq", CallN(g, <<Name("v")>>), CI(e)))>>, TBool)] :
           k \in {2, 4}, g \in {"g", "oracle", "v"}, e \in 0..3}
        \cup {[callee |-> Callee(13, g), route |-> "oraclize", element |-> e,
                caller |-> FunDef("oracle", <<Arg("v", TTup(<<I2, TBool>>))>>,
                                  <<Ret(Cmp("Eq", CallN(g, <<Name("v")>>), CB(e)))>>, TBool)] : g \in {"g", "oracle"}, e \in BOOLEAN}

Pats == IF Family = "oraclize" THEN Orac ELSE UNION {PB(nm, Family) : nm \in Names}

Init == p \in Pats
Next == FALSE /\ p' = p
Spec == Init /\ [][Next]_p
Emit == PrintT(<<"P", ToJson(p)>>)
=============================================================================

---------------------------- MODULE Trace_BitBlast ----------------------------
(***************************************************************************)
(* Refinement binding of the integer operators: one case = one application  *)
(* l OP r (the cases MC_BitBlast emits) translated by the REAL               *)
(* translate_expression; recorded: the result's type width and bit           *)
(* expressions, or the exception.  The verdict says whether the recording   *)
(* is what BitBlast.tla computes:                                          *)
(*   conform               same type tag, bit for bit the same expression   *)
(*                         (as sympy-canonical N-forms)                     *)
(*   same-meaning          same tag and width, every bit the same function  *)
(*   drift:<what>          anything else (never a verdict on a property)    *)
(***************************************************************************)
EXTENDS BitBlastCase, IOUtils

Cases_ == JsonDeserialize(IOEnv.CASES)
VARIABLE i

FxVerdict(t) ==
  LET x == t.case IN
  IF FxRejected(x) THEN (IF t.exc # "" THEN "conform" ELSE "drift:model-rejects-real-does-not")
  ELSE IF t.exc # "" THEN "drift:real-raised-model-does-not"
  ELSE
  LET res == FxResult(x)
      real == [j \in DOMAIN t.bits |-> CanonE(t.bits[j])]
      ins == FxInputs(x)
      U == Rows(Len(ins))
      env == InputEnv(ins, U)
  IN IF t.w # res.w THEN "drift:type-tag"
     ELSE IF Len(real) # Len(res.bits) THEN "drift:number-of-bits"
     ELSE IF real = res.bits THEN "conform"
     ELSE IF \A j \in DOMAIN real : FreeN(real[j]) \subseteq DOMAIN env /\ SemN(real[j], env, U) = SemN(res.bits[j], env, U) THEN "same-meaning"
     ELSE "drift:bit-function-differs"

Verdict(t) ==
  IF t.case.l.k \in {"fx", "flt"} THEN FxVerdict(t) ELSE
  LET x == t.case
      res == Result(x)
  IN IF t.exc # "" THEN (IF Rejects(res) THEN "conform" ELSE "drift:real-raised-model-does-not")
     ELSE IF Rejects(res) THEN "drift:model-rejects-real-does-not"
     ELSE
     LET real == [j \in DOMAIN t.bits |-> CanonE(t.bits[j])]
         ins == Inputs(x)
         U == Rows(Len(ins))
         env == InputEnv(ins, U)
     IN IF t.w # res.w THEN "drift:type-tag"
        ELSE IF Len(real) # Len(res.bits) THEN "drift:number-of-bits"
        ELSE IF real = res.bits THEN "conform"
        ELSE IF \A j \in DOMAIN real : FreeN(real[j]) \subseteq DOMAIN env /\ SemN(real[j], env, U) = SemN(res.bits[j], env, U) THEN "same-meaning"
        ELSE "drift:bit-function-differs"

Init == i = 1
Next == /\ i <= Len(Cases_)
         /\ PrintT(<<"V", Cases_[i].id, Verdict(Cases_[i])>>)
         /\ i' = i + 1
Spec == Init /\ [][Next]_i
=============================================================================

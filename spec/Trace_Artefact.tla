--------------------------- MODULE Trace_Artefact ---------------------------
(***************************************************************************)
(* Validation of recorded compilation artefacts against the contract layer  *)
(* (properties C02, C03, C06).  One case = the observable result of one     *)
(* real  qlassf(...)  call: the expression list the library reports and the *)
(* circuit it built for it.  TLC evaluates every clause for EVERY input row *)
(* at once (row-set semantics, see BoolSem/Circuit).                        *)
(*                                                                         *)
(* case fields: id, inputs (names of argument bits, qubit k-1 = inputs[k]), *)
(*   rets (names of return bits, in order), exprs (<<name, expr>> list),    *)
(*   gates, nq, qmap (insertion-ordered <<name, index>> pairs), unc (final  *)
(*   uncomputation requested), isbool (single bool return)                 *)
(***************************************************************************)
EXTENDS Circuit, TLC, Json, IOUtils

Cases == JsonDeserialize(IOEnv.CASES)
VARIABLE i

QHas(qmap, n) == \E j \in 1..Len(qmap) : qmap[j][1] = n
QGet(qmap, n) == qmap[CHOOSE j \in 1..Len(qmap) : qmap[j][1] = n][2]

MinOf(S) == CHOOSE x \in S : \A y \in S : x <= y

\* first element of a sequence of names satisfying P, or "" (sequence order)
FirstBad(names, P(_)) ==
  LET I == {j \in 1..Len(names) : P(names[j])} IN IF I = {} THEN "" ELSE names[MinOf(I)]

---------------------------------------------------------------------------
(* C02: the circuit computes the expressions *)
C02(c) ==
  LET nin == Len(c.inputs)
      U   == Rows(nin)
      ub  == Unbound(c.exprs, c.inputs)
  IN
  IF ub # {} THEN <<"fail", "expr-free-symbol", CHOOSE s \in ub : TRUE, 0>>
  ELSE IF ~WellFormed(c.gates, c.nq) THEN <<"fail", "gate-qubit-out-of-range-or-duplicate", "", 0>>
  ELSE IF ~AllClassical(c.gates) THEN <<"skip", "non-classical-gate", "", 0>>
  ELSE
  LET env  == SemList(c.exprs, c.inputs, U)
      unm  == FirstBad(c.rets, LAMBDA r : ~QHas(c.qmap, r))
      undef == FirstBad(c.rets, LAMBDA r : r \notin DOMAIN env)
      oor == FirstBad(c.rets, LAMBDA r : QHas(c.qmap, r) /\ (QGet(c.qmap, r) < 0 \/ QGet(c.qmap, r) >= c.nq))
  IN
  IF unm # "" THEN <<"fail", "return-bit-not-mapped", unm, 0>>
  ELSE IF oor # "" THEN <<"fail", "return-bit-mapped-to-a-qubit-the-circuit-does-not-have", oor, 0>>
  ELSE IF undef # "" THEN <<"fail", "return-bit-not-defined", undef, 0>>
  ELSE
  LET fin == Run(c.gates, InitVal(nin, c.nq, U), U)
      bad == FirstBad(c.rets, LAMBDA r : fin[QGet(c.qmap, r) + 1] # env[r])
  IN IF bad = "" THEN <<"ok", "", "", Cardinality(U)>>
     ELSE <<"fail", "output-qubit-differs-from-expression", bad,
            MinOf(SD(fin[QGet(c.qmap, bad) + 1], env[bad]))>>

---------------------------------------------------------------------------
(* C03: clean circuits (only meaningful when unc = TRUE) *)
C03(c) ==
  LET nin == Len(c.inputs)
      U   == Rows(nin)
  IN
  IF ~WellFormed(c.gates, c.nq) THEN <<"fail", "gate-qubit-out-of-range-or-duplicate", -1, 0>>
  ELSE IF ~AllClassical(c.gates) THEN <<"skip", "non-classical-gate", -1, 0>>
  ELSE IF \E r \in {c.rets[j] : j \in 1..Len(c.rets)} : ~QHas(c.qmap, r) THEN <<"skip", "return-bit-not-mapped", -1, 0>>
  ELSE IF \E r \in {c.rets[j] : j \in 1..Len(c.rets)} : QGet(c.qmap, r) < 0 \/ QGet(c.qmap, r) >= c.nq
       THEN <<"fail", "return-bit-mapped-to-a-qubit-the-circuit-does-not-have", -1, 0>>
  ELSE
  LET fin  == Run(c.gates, InitVal(nin, c.nq, U), U)
      outq == {QGet(c.qmap, c.rets[j]) : j \in 1..Len(c.rets)}
      badin == {q \in 0..(nin-1) : fin[q+1] # SymRows(U, q)}
      dirty == {q \in nin..(c.nq-1) : q \notin outq /\ fin[q+1] # {}}
  IN IF badin # {} THEN <<"fail", "argument-qubit-changed", MinOf(badin),
                           MinOf(SD(fin[MinOf(badin)+1], SymRows(U, MinOf(badin))))>>
     ELSE IF dirty # {} THEN <<"fail", "scratch-qubit-not-zero", MinOf(dirty), MinOf(fin[MinOf(dirty)+1])>>
     ELSE <<"ok", "", -1, Cardinality(U)>>

---------------------------------------------------------------------------
(* C06: a predicate is an xor-oracle.  One extra pseudo-input y (bit nin)   *)
(* is the initial value of the output qubit.                                *)
C06(c) ==
  LET nin == Len(c.inputs)
      U   == Rows(nin + 1)
      Y   == SymRows(U, nin)
  IN
  IF ~c.isbool THEN <<"skip", "not-a-predicate", -1, 0>>
  ELSE IF Unbound(c.exprs, c.inputs) # {} THEN <<"skip", "expr-free-symbol", -1, 0>>
  ELSE IF ~WellFormed(c.gates, c.nq) \/ ~AllClassical(c.gates) THEN <<"skip", "gates", -1, 0>>
  ELSE IF ~QHas(c.qmap, c.rets[1]) THEN <<"skip", "return-bit-not-mapped", -1, 0>>
  ELSE IF QGet(c.qmap, c.rets[1]) < 0 \/ QGet(c.qmap, c.rets[1]) >= c.nq THEN <<"fail", "return-bit-mapped-to-a-qubit-the-circuit-does-not-have", -1, 0>>
  ELSE
  LET env == SemList(c.exprs, c.inputs, U)
      o   == QGet(c.qmap, c.rets[1])
      v0  == [q \in 1..c.nq |-> IF q <= nin THEN SymRows(U, q-1) ELSE IF q = o+1 THEN Y ELSE {}]
      fin == Run(c.gates, v0, U)
      badin == {q \in 0..(nin-1) : fin[q+1] # SymRows(U, q)}
      dirty == {q \in nin..(c.nq-1) : q # o /\ fin[q+1] # {}}
  IN IF o < nin THEN <<"fail", "output-qubit-is-an-argument-qubit", o, 0>>
     ELSE IF fin[o+1] # SD(Y, env[c.rets[1]])
          THEN <<"fail", "output-not-y-xor-f", o, MinOf(SD(fin[o+1], SD(Y, env[c.rets[1]])))>>
     ELSE IF badin # {} THEN <<"fail", "argument-qubit-changed", MinOf(badin), 0>>
     ELSE IF dirty # {} THEN <<"fail", "scratch-qubit-not-zero", MinOf(dirty), MinOf(fin[MinOf(dirty)+1])>>
     ELSE <<"ok", "", -1, Cardinality(U)>>

---------------------------------------------------------------------------
Verdict(c) ==
  CASE IOEnv.PROP = "C02" -> C02(c)
    [] IOEnv.PROP = "C03" -> C03(c)
    [] IOEnv.PROP = "C06" -> C06(c)

Init == i = 1
Next == /\ i <= Len(Cases)
        /\ PrintT(<<"V", Cases[i].id, Verdict(Cases[i])>>)
        /\ i' = i + 1
Spec == Init /\ [][Next]_i
=============================================================================

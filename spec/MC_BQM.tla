------------------------------- MODULE MC_BQM -------------------------------
(***************************************************************************)
(* Model checking of BQM.tla over the universe of ExprGen: on every         *)
(* complete tree the visitor translates, and on EVERY assignment, the        *)
(* polynomial of the tree is 1 where the expression holds and 0 elsewhere   *)
(* (so the energy of a function is the number of return bits that are true, *)
(* which is what C18 asks of the exported model).  Trees the visitor cannot *)
(* translate (an Or of three operands, ITE, Implies: removed by the         *)
(* optimizer profiles before to_bqm sees them) are counted, not judged.     *)
(***************************************************************************)
EXTENDS ExprGen, BQM, TLC

SymSeq == SetToSortSeq(Syms, LAMBDA x, y : TRUE)
U3 == Rows(Cardinality(Syms))
Env3 == InputEnv(SymSeq, U3)
Asg(r) == [n \in Syms |-> IF r \in Env3[n] THEN 1 ELSE 0]

Faithful(e) ==
  LET t == Tree(e) IN
  IF HasErr(t) THEN PrintT(<<"B", "not-translated">>)
  ELSE /\ \A r \in U3 : Val(t, Asg(r)) = (IF r \in Sem(e, Env3, U3) THEN 1 ELSE 0)
       /\ PrintT(<<"B", "faithful">>)
BqmOK == (Len(stack) = 1 /\ ntok >= 2) => Faithful(stack[1])
=============================================================================

------------------------------ MODULE CircuitOps ------------------------------
(***************************************************************************)
(* Refinement layer: the circuit composition operators of QCircuit /        *)
(* QCircuitEnhanced, shaped like the code.  A circuit is [nq, gates]; a     *)
(* gate is [id, k, w, m] where id models Python object identity of the gate *)
(* object (append_circuit re-uses the operand's gate objects, deepcopy      *)
(* makes new ones; remove_identities compares identity).  Fresh ids come    *)
(* from a counter threaded through the operators (result: [c, next]).       *)
(***************************************************************************)
EXTENDS Integers, Sequences

RECURSIVE FreshFrom(_, _, _)
FreshFrom(gs, j, next) ==      \* deepcopy of a gate list: equal objects stay equal, all ids new
  IF j > Len(gs) THEN <<>>
  ELSE LET prior == {k \in 1..(j - 1) : gs[k].id = gs[j].id}
       IN <<[gs[j] EXCEPT !.id = IF prior = {} THEN next + j ELSE next + (CHOOSE k \in prior : \A l \in prior : k <= l)]>>
          \o FreshFrom(gs, j + 1, next)
DeepCopy(c, next) == [c |-> [c EXCEPT !.gates = FreshFrom(c.gates, 1, next)], next |-> next + Len(c.gates) + 1]

RemapG(gs, f) == [j \in 1..Len(gs) |-> [gs[j] EXCEPT !.w = [k \in 1..Len(gs[j].w) |-> f[gs[j].w[k] + 1]]]]
\* append_circuit(other, qubits): the operand's gate OBJECTS are appended (new tuples, same objects)
AppendCircuit(self, other, f) == [self EXCEPT !.gates = @ \o RemapG(other.gates, f)]
IdMap(n) == [k \in 1..n |-> k - 1]
IAdd(self, other) == AppendCircuit(self, other, IdMap(other.nq))
\* __add__: deepcopy(self) += other
Add(a, b, next) == LET d == DeepCopy(a, next) IN [c |-> IAdd(d.c, b), next |-> d.next]
\* repeat(n): o = copy(); r = copy(); r.gates = [] when n = 0; (n-1) x  r += o.copy()
RECURSIVE RepeatFrom(_, _, _, _)
RepeatFrom(r, o, k, next) == IF k = 0 THEN [c |-> r, next |-> next]
                             ELSE LET d == DeepCopy(o, next) IN RepeatFrom(IAdd(r, d.c), o, k - 1, d.next)
Repeat(a, n, next) == LET o == DeepCopy(a, next)  r == DeepCopy(a, o.next) IN
                      IF n = 0 THEN [c |-> [r.c EXCEPT !.gates = <<>>], next |-> r.next] ELSE RepeatFrom(r.c, o.c, n - 1, r.next)
AppendGate(self, g, next) == [c |-> [self EXCEPT !.gates = Append(@, [g EXCEPT !.id = next])], next |-> next + 1]

SelfInverse(g) == g.k \in {"I", "X", "Y", "Z", "H", "SWAP", "MCX", "MCZ"}
SameApplied(g, h) == g.id = h.id /\ g.w = h.w /\ g.m = h.m
\* remove_identities: the peephole loop as written
RemoveIdentities(c) ==
  LET gs == c.gates  n == Len(gs)
      PopBar(res) == IF Len(res) > 0 /\ res[Len(res)].k = "BAR" THEN SubSeq(res, 1, Len(res) - 1) ELSE res
      RECURSIVE F(_, _)
      F(i, res) ==
        IF i > n THEN res
        ELSE IF i < n /\ SameApplied(gs[i], gs[i + 1]) /\ SelfInverse(gs[i]) THEN F(i + 2, PopBar(res))
        ELSE IF i < n - 1 /\ SameApplied(gs[i], gs[i + 2]) /\ gs[i + 1].k = "BAR" /\ SelfInverse(gs[i]) THEN F(i + 3, PopBar(res))
        ELSE F(i + 1, Append(res, gs[i]))
  IN [c EXCEPT !.gates = F(1, <<>>)]

\* qft(wl) / iqft(wl): phases as multiples of 2*pi/16 (16 / 2^(j-i+1)), -1 when not representable
PhaseM(d) == IF d <= 4 THEN 16 \div (2 ^ d) ELSE -1
G0(k, w, m) == [id |-> 0, k |-> k, w |-> w, m |-> m]
RECURSIVE QftRow(_, _, _, _)
QftRow(wl, i, j, n) == IF j > n THEN <<>> ELSE <<G0("MCP", <<wl[j], wl[i]>>, PhaseM(j - i + 1))>> \o QftRow(wl, i, j + 1, n)
RECURSIVE QftBody(_, _, _)
QftBody(wl, i, n) == IF i > n THEN <<>> ELSE <<G0("H", <<wl[i]>>, 0)>> \o QftRow(wl, i, i + 1, n) \o QftBody(wl, i + 1, n)
Swaps(wl) == LET n == Len(wl) IN [i \in 1..(n \div 2) |-> G0("SWAP", <<wl[i], wl[n - i + 1]>>, 0)]
QftGates(wl) == QftBody(wl, 1, Len(wl)) \o Swaps(wl)
NegM(m) == IF m <= 0 THEN m ELSE (16 - m) % 16
RECURSIVE IqftRow(_, _, _, _)
IqftRow(wl, i, j, n) == IF j <= i THEN <<>> ELSE <<G0("MCP", <<wl[j], wl[i]>>, NegM(PhaseM(j - i + 1)))>> \o IqftRow(wl, i, j - 1, n)
RECURSIVE IqftBody(_, _, _)
IqftBody(wl, i, n) == IF i < 1 THEN <<>> ELSE IqftRow(wl, i, n, n) \o <<G0("H", <<wl[i]>>, 0)>> \o IqftBody(wl, i - 1, n)
IqftGates(wl) == Swaps(wl) \o IqftBody(wl, Len(wl), Len(wl))
=============================================================================

---------------------------- MODULE MC_BoolOptPat ----------------------------
(***************************************************************************)
(* Model checking of BoolOpt.tla over the universe of PatGen: the           *)
(* neighbourhood of every rewrite rule (disjunctions of 2- and 3-literal    *)
(* conjunctions in every sign and permutation, n-ary operators, ITE /       *)
(* Implies nests) -- the trees on which the rules actually fire.            *)
(***************************************************************************)
EXTENDS PatGen, BoolOptInv
RulesOK == RulesOKFor(e)
=============================================================================

------------------------------ MODULE BitBlast ------------------------------
(***************************************************************************)
(* Refinement layer: the translator's integer operators                     *)
(* (qlasskit/types/qint.py, qtype.py, const_to_qtype) as written.           *)
(*                                                                         *)
(* A typed expression is  [w |-> BIT_SIZE of its type tag,                  *)
(*                          bits |-> sequence of boolean expressions],      *)
(* least significant bit first; bit expressions are N-forms built through   *)
(* BoolOpt's constructors (so they are what sympy's constructors build and  *)
(* can be compared STRUCTURALLY with the library's results).  One operator  *)
(* per method: Fill, Crop, Const, ConstToQtype, Eq, Neq, Gt, Lt, Lte, Gte,  *)
(* Add, Sub, Mul (+ MulEvenConst, MulSizing), Mod, the bitwise operators,   *)
(* shifts and BitwiseNot, and BinOp / Compare: the dispatch of              *)
(* t_expression.py (which class's method runs, with which receiver).        *)
(*                                                                         *)
(* The zero-extension rules live here: which operand is filled to which     *)
(* type, before or after complementing, and what the result's type tag is.  *)
(* MC_BitBlast checks them against integer arithmetic on every pair of      *)
(* widths; Trace_BitBlast compares them with the real methods.              *)
(***************************************************************************)
EXTENDS BoolOpt

QintSizes == {2, 3, 4, 5, 6, 7, 8, 12, 16}
TE(w, bs) == [w |-> w, bits |-> bs]
Falses(n) == [j \in 1..n |-> NFalse]
IsConstBit(b) == b.op \in {"true", "false"}
IsConstTE(v) == \A j \in DOMAIN v.bits : IsConstBit(v.bits[j])

\* Qtype.fill / crop (classmethods: T is the receiver's BIT_SIZE)
Fill(T, v) == IF Len(v.bits) >= T THEN v ELSE TE(T, v.bits \o Falses(T - Len(v.bits)))
Crop(T, v) == IF Len(v.bits) <= T THEN v ELSE TE(T, SubSeq(v.bits, 1, T))

\* binary digits of a natural, least significant first, no leading zeros (bin(v)[2:] reversed; "0" for 0)
RECURSIVE Digits(_)
Digits(v) == IF v < 2 THEN <<v>> ELSE <<v % 2>> \o Digits(v \div 2)
BoolN(d) == IF d = 1 THEN NTrue ELSE NFalse
\* QintImp.const
Const(T, v) == LET d == Digits(v % (2^T)) IN Fill(T, TE(T, [j \in DOMAIN d |-> BoolN(d[j])]))
\* const_to_qtype for an int literal: the first of Qint2,4,6,8,12,16 it fits
ConstToQtype(v) == LET T == CHOOSE t \in {2, 4, 6, 8, 12, 16} : v < 2^t /\ \A u \in {2, 4, 6, 8, 12, 16} : v < 2^u => t <= u
                   IN Const(T, v)
\* from_bool of a constant bit list
ValOf(bs) == LET RECURSIVE F(_) F(j) == IF j > Len(bs) THEN 0 ELSE (IF bs[j].op = "true" THEN 2^(j - 1) ELSE 0) + F(j + 1) IN F(1)

BEq(a, b)  == MkNot(MkXor(<<a, b>>))          \* _eq
BNeq(a, b) == MkXor(<<a, b>>)                 \* _neq
\* _full_adder(c, a, b) = ((a & b) ^ ((a ^ b) & c), Xor(Xor(a, b), c))
FACarry(c, a, b) == MkXor(<<MkAnd({a, b}), MkAnd({MkXor(<<a, b>>), c})>>)
FASum(c, a, b)   == MkXor(<<MkXor(<<a, b>>), c>>)
Min(a, b) == IF a < b THEN a ELSE b
Max(a, b) == IF a > b THEN a ELSE b

(***************************************************************************)
(* comparators (static methods; no filling: they walk the common prefix     *)
(* and then the extra high bits of the longer operand)                      *)
(***************************************************************************)
Eq(l, r) ==
  LET n == Min(Len(l.bits), Len(r.bits))
      RECURSIVE Z(_, _)
      Z(j, ex) == IF j > n THEN ex ELSE Z(j + 1, MkAnd({ex, BEq(l.bits[j], r.bits[j])}))
      long == IF Len(l.bits) > Len(r.bits) THEN l.bits ELSE r.bits
      RECURSIVE H(_, _)
      H(j, ex) == IF j > Len(long) THEN ex ELSE H(j + 1, MkAnd({ex, MkNot(long[j])}))
  IN H(n + 1, Z(1, NTrue))
Neq(l, r) ==
  LET n == Min(Len(l.bits), Len(r.bits))
      RECURSIVE Z(_, _)
      Z(j, ex) == IF j > n THEN ex ELSE Z(j + 1, MkOr({ex, BNeq(l.bits[j], r.bits[j])}))
      long == IF Len(l.bits) > Len(r.bits) THEN l.bits ELSE r.bits
      RECURSIVE H(_, _)
      H(j, ex) == IF j > Len(long) THEN ex ELSE H(j + 1, MkOr({ex, long[j]}))
  IN H(n + 1, Z(1, NFalse))
Gt(l, r) ==
  LET n == Min(Len(l.bits), Len(r.bits))
      \* from the most significant common bit down; prev = the equalities of the bits already passed
      RECURSIVE W(_, _, _)
      W(j, ex, prev) ==
        IF j < 1 THEN ex
        ELSE LET a == l.bits[j]
                 b == r.bits[j]
                 term == IF j = n THEN MkAnd({a, MkNot(b)}) ELSE MkOr({ex, MkAnd(prev \cup {a, MkNot(b)})})
             IN W(j - 1, term, prev \cup {BEq(a, b)})
      common == W(n, NFalse, {})
      RECURSIVE HL(_, _)
      HL(j, ex) == IF j > Len(l.bits) THEN ex ELSE HL(j + 1, MkOr({ex, l.bits[j]}))           \* left wider: any extra bit set
      RECURSIVE HR(_, _)
      HR(j, ex) == IF j > Len(r.bits) THEN ex ELSE HR(j + 1, MkAnd({ex, MkNot(r.bits[j])}))   \* right wider: all extra bits clear
  IN IF Len(l.bits) > Len(r.bits) THEN HL(n + 1, common)
     ELSE IF Len(l.bits) < Len(r.bits) THEN HR(n + 1, common)
     ELSE common
Lt(l, r)  == MkAnd({MkNot(Gt(l, r)), MkNot(Eq(l, r))})
Lte(l, r) == MkNot(Gt(l, r))
Gte(l, r) == MkNot(Lt(l, r))

(***************************************************************************)
(* operations (classmethods: cls is the receiver's BIT_SIZE)                *)
(***************************************************************************)
BitwiseNot(v) == TE(v.w, [j \in DOMAIN v.bits |-> MkNot(v.bits[j])])
ShiftRight(v, i) == Fill(v.w, TE(v.w, SubSeq(v.bits, i + 1, Len(v.bits))))
ShiftLeft(v, i) == Crop(v.w, TE(v.w, Falses(i) \o v.bits))

\* the common widening of add and the bitwise operators: the shorter operand is filled by the other's type
Widen(l, r) ==
  IF Len(l.bits) > Len(r.bits) THEN <<l, Fill(l.w, r)>>
  ELSE IF Len(l.bits) < Len(r.bits) THEN <<Fill(r.w, l), r>>
  ELSE <<l, r>>
Add(cls, l0, r0) ==
  LET p == Widen(l0, r0)
      l == p[1]
      r == p[2]
      n == Min(Len(l.bits), Len(r.bits))
      RECURSIVE S(_, _)
      S(j, carry) == IF j > n THEN <<>> ELSE <<FASum(carry, l.bits[j], r.bits[j])>> \o S(j + 1, FACarry(carry, l.bits[j], r.bits[j]))
  IN TE(IF cls > l.w THEN cls ELSE l.w, S(1, NFalse))
Sub(cls, l0, r) ==
  LET l == IF Len(l0.bits) < Len(r.bits) THEN Fill(r.w, l0) ELSE l0
      an == BitwiseNot(Fill(cls, l))
      su == Add(cls, an, Fill(cls, r))
  IN BitwiseNot(su)
Bitwise(o, l0, r0) ==
  LET p == Widen(l0, r0)
      n == Min(Len(p[1].bits), Len(p[2].bits))
      f(a, b) == IF o = "xor" THEN MkXor(<<a, b>>) ELSE IF o = "and" THEN MkAnd({a, b}) ELSE MkOr({a, b})
  IN TE(p[2].w, [j \in 1..n |-> f(p[1].bits[j], p[2].bits[j])])

MulSizing(n, m) == IF n + m <= 2 THEN 2 ELSE IF n + m <= 4 THEN 4 ELSE IF n + m <= 6 THEN 6 ELSE IF n + m <= 8 THEN 8
                   ELSE IF n + m <= 12 THEN 12 ELSE 16
\* shift-and-add over the set bits of the constant, every partial product at the width of the result type
MulEvenConst(num, const, T) ==
  LET d == Digits(const)
      term(i) == Fill(T, ShiftLeft(TE(T, num.bits), i))
      RECURSIVE A(_, _, _)
      A(i, res, started) ==
        IF i > Len(d) THEN (IF started THEN res ELSE Const(T, 0))
        ELSE IF d[i] = 0 THEN A(i + 1, res, started)
        ELSE A(i + 1, IF started THEN Add(T, res, term(i - 1)) ELSE term(i - 1), TRUE)
  IN TE(T, A(1, TE(T, <<>>), FALSE).bits)
\* the schoolbook product: row i of partial products added into product[i .. i+m], carry into product[i+m]
Product(l, r, n, m) ==
  LET RECURSIVE Row(_, _, _, _)
      \* j-th column of row i: returns the product vector after the row
      Row(i, j, prod, carry) ==
        IF j > m THEN (IF i - 1 + m < n + m THEN [prod EXCEPT ![i + m] = carry] ELSE prod)
        ELSE LET pp == MkAnd({l.bits[i], r.bits[j]})
                 k == i + j - 1                                     \* 1-based index of product[i-1 + j-1]
             IN IF (i - 1) + (j - 1) < n + m - 1
                THEN Row(i, j + 1, [prod EXCEPT ![k] = FASum(carry, pp, prod[k])], FACarry(carry, pp, prod[k]))
                ELSE Row(i, j + 1, [prod EXCEPT ![k] = MkXor(<<carry, pp>>)], carry)
      RECURSIVE Rows_(_, _)
      Rows_(i, prod) == IF i > n THEN prod ELSE Rows_(i + 1, Row(i, 1, prod, NFalse))
  IN Rows_(1, Falses(n + m))
Mul(cls, l0, r0) ==
  LET l1 == IF IsConstTE(l0) THEN Fill(r0.w, l0) ELSE l0             \* constants take the other operand's type
      r1 == IF IsConstTE(r0) THEN Fill(l0.w, r0) ELSE r0
      n1 == Len(l1.bits)
      m1 == Len(r1.bits)
      l == IF n1 < m1 THEN Fill(r0.w, l1) ELSE l1
      r == IF n1 > m1 THEN Fill(l0.w, r1) ELSE r1
      n == Max(n1, m1)
      T == MulSizing(n, n)
      constcase == IsConstTE(l) \/ IsConstTE(r)
      num == IF IsConstTE(r) THEN l ELSE r
      cst == ValOf(IF IsConstTE(r) THEN r.bits ELSE l.bits)
  IN IF constcase /\ cst % 2 = 0 THEN Crop(T, Fill(T, MulEvenConst(num, cst, T)))
     ELSE Crop(T, Fill(T, TE(T, Product(l, r, Len(l.bits), Len(r.bits)))))
\* x mod y = x & (y - 1): "reject" when y is a constant that is not a power of two
IsPow2(y) == y > 0 /\ \E k \in 0..16 : y = 2^k
Mod(l, r) ==
  IF IsConstTE(r) /\ ~IsPow2(ValOf(r.bits)) THEN TE(0, <<>>)        \* raises
  ELSE Bitwise("and", l, Sub(r.w, r, Const(r.w, 1)))
Rejects(v) == v.w = 0

(***************************************************************************)
(* dispatch of t_expression.py                                             *)
(***************************************************************************)
BinOp(op, l, r) ==
  CASE op = "Add" -> Add(l.w, l, r)
    [] op = "Sub" -> Sub(l.w, l, r)
    [] op = "Mult" -> Mul(l.w, l, r)
    [] op = "Mod" -> Mod(l, r)
    [] op = "BitXor" -> Bitwise("xor", l, r)
    [] op = "BitAnd" -> Bitwise("and", l, r)
    [] op = "BitOr" -> Bitwise("or", l, r)
Compare(op, l, r) ==
  CASE op = "Eq" -> Eq(l, r) [] op = "NotEq" -> Neq(l, r) [] op = "Gt" -> Gt(l, r)
    [] op = "Lt" -> Lt(l, r) [] op = "LtE" -> Lte(l, r) [] op = "GtE" -> Gte(l, r)


(***************************************************************************)
(* fixed point (qlasskit/types/qfixed.py): a value of layout <<i, f>> is     *)
(* [w |-> i + f, i, f, bits]: i integer bits least significant first, then  *)
(* f fractional bits MOST significant first.  Arithmetic goes through the   *)
(* "qint representation" (fraction reversed, then the integer part), i.e.   *)
(* the scaled integer value * 2^f, least significant bit first.             *)
(***************************************************************************)
FX(i, f, bs) == [w |-> i + f, i |-> i, f |-> f, bits |-> bs]
Rev(q) == [j \in 1..Len(q) |-> q[Len(q) + 1 - j]]
IntPart(v)  == SubSeq(v.bits, 1, v.i)
FracPart(v) == SubSeq(v.bits, v.i + 1, Len(v.bits))
ToQintRepr(v) == Rev(FracPart(v)) \o IntPart(v)
FromQintRepr(bs, f) == SubSeq(bs, f + 1, Len(bs)) \o Rev(SubSeq(bs, 1, f))
FxFill(T, v) == IF Len(v.bits) >= T.w THEN v ELSE FX(T.i, T.f, v.bits \o Falses(T.w - Len(v.bits)))
FixedTypes == << <<1,2>>, <<1,3>>, <<1,4>>, <<1,6>>, <<2,2>>, <<2,3>>, <<2,4>>, <<2,6>>, <<3,3>>, <<3,4>>, <<3,6>>, <<4,4>>, <<4,6>> >>
\* QfixedImp.const(num/den) in layout <<i, f>>: the integer part modulo 2^i, the fraction truncated to f bits
FxConst(i, f, num, den) ==
  LET ip == (num \div den) % (2^i)
      fr == ((num % den) * (2^f)) \div den          \* floor(frac * 2^f)
  IN FX(i, f, [j \in 1..i |-> BoolN((ip \div (2^(j - 1))) % 2)] \o [j \in 1..f |-> BoolN((fr \div (2^(f - j))) % 2)])
\* const_to_qtype for a float literal: the first shipped layout whose constant is within 0.05 of the literal
FxLiteral(num, den) ==
  LET C(k) == LET i == FixedTypes[k][1] f == FixedTypes[k][2] IN ((num \div den) % (2^i)) * (2^f) + (((num % den) * (2^f)) \div den)
      D(k) == LET d == C(k) * den - num * (2^FixedTypes[k][2]) IN IF d < 0 THEN -d ELSE d
      K == {k \in DOMAIN FixedTypes : 20 * D(k) < den * (2^FixedTypes[k][2])}
  IN IF K = {} THEN FX(0, 0, <<>>)
     ELSE LET k == CHOOSE x \in K : \A y \in K : x <= y IN FxConst(FixedTypes[k][1], FixedTypes[k][2], num, den)
\* QfixedImp._align: the operand whose integer and fractional parts are both not longer is re-expressed in the
\* layout of the other; <<>> when neither layout contains the other (TypeErrorException)
FxWiden(v, T) == FX(T.i, T.f, IntPart(v) \o Falses(T.i - v.i) \o FracPart(v) \o Falses(T.f - v.f))
FxAlign(l, r) ==
  IF l.i = r.i /\ l.f = r.f THEN <<l, r>>
  ELSE IF l.i >= r.i /\ l.f >= r.f THEN <<l, FxWiden(r, l)>>
  ELSE IF r.i >= l.i /\ r.f >= l.f THEN <<FxWiden(l, r), r>>
  ELSE <<>>
FxEq(l0, r0) == LET p == FxAlign(l0, r0) IN Eq(TE(0, p[1].bits), TE(0, p[2].bits))       \* zip of the bit lists (equal lengths)
FxNeq(l0, r0) == LET p == FxAlign(l0, r0) IN Neq(TE(0, p[1].bits), TE(0, p[2].bits))
\* the Qint walk on the qint representations; after alignment there are no extra high bits
FxGt(l0, r0) == LET p == FxAlign(l0, r0) IN Gt(TE(0, ToQintRepr(p[1])), TE(0, ToQintRepr(p[2])))
FxLt(l, r)  == MkAnd({MkNot(FxGt(l, r)), MkNot(FxEq(l, r))})
FxLte(l, r) == MkNot(FxGt(l, r))
FxGte(l, r) == MkNot(FxLt(l, r))
FxAdd(l0, r0) ==
  LET p == FxAlign(l0, r0)
      res == Add(8, TE(p[1].w, ToQintRepr(p[1])), TE(p[2].w, ToQintRepr(p[2])))         \* QintImp.add: the receiver is QintImp itself
  IN FX(p[1].i, p[1].f, FromQintRepr(res.bits, p[1].f))
FxNot(v) == FX(v.i, v.f, [j \in DOMAIN v.bits |-> MkNot(v.bits[j])])
FxSub(cls, l0, r0) ==                  \* cls: the layout record of the receiver (the left operand's type)
  LET p == FxAlign(l0, r0) IN FxNot(FxAdd(FxNot(FxFill(cls, p[1])), FxFill(cls, p[2])))
\* Qfixed * integer constant: repeated addition
FxMulConst(v, k) ==
  LET RECURSIVE M(_, _) M(acc, n) == IF n = 0 THEN acc ELSE M(FxAdd(acc, v), n - 1)
  IN IF k = 0 THEN FxConst(v.i, v.f, 0, 1) ELSE M(v, k - 1)
FxRejects(l, r) == FxAlign(l, r) = <<>>

\* value of a typed expression on a row (for the arithmetic check): sum of 2^(j-1) over the bits true on the row
ValOn(v, env, U, row) ==
  LET RECURSIVE F(_) F(j) == IF j > Len(v.bits) THEN 0 ELSE (IF row \in SemN(v.bits[j], env, U) THEN 2^(j - 1) ELSE 0) + F(j + 1) IN F(1)
=============================================================================

------------------------------ MODULE BitBlast ------------------------------
(***************************************************************************)
(* Refinement layer: the translator's integer operators                     *)
(* (qlasskit/types/qint.py, qtype.py, const_to_qtype) as written.           *)
(*                                                                         *)
(* A typed expression is  [w |-> BIT_SIZE of its type tag,                  *)
(*                          bits |-> sequence of boolean expressions],      *)
(* least significant bit first; bit expressions are N-forms built through   *)
(* BoolOpt's constructors (so they are what sympy's constructors build and  *)
(* can be compared STRUCTURALLY with the library's results).  One operator  *)
(* per method: Fill, Crop, Const, ConstToQtype, Eq, Neq, Gt, Lt, Lte, Gte,  *)
(* Add, Sub, Mul (+ MulEvenConst, MulSizing), Mod, the bitwise operators,   *)
(* shifts and BitwiseNot, and BinOp / Compare: the dispatch of              *)
(* t_expression.py (which class's method runs, with which receiver).        *)
(*                                                                         *)
(* The zero-extension rules live here: which operand is filled to which     *)
(* type, before or after complementing, and what the result's type tag is.  *)
(* MC_BitBlast checks them against integer arithmetic on every pair of      *)
(* widths; Trace_BitBlast compares them with the real methods.              *)
(***************************************************************************)
EXTENDS BoolOpt

QintSizes == {2, 3, 4, 5, 6, 7, 8, 12, 16}
TE(w, bs) == [w |-> w, bits |-> bs]
Falses(n) == [j \in 1..n |-> NFalse]
IsConstBit(b) == b.op \in {"true", "false"}
IsConstTE(v) == \A j \in DOMAIN v.bits : IsConstBit(v.bits[j])

\* Qtype.fill / crop (classmethods: T is the receiver's BIT_SIZE)
Fill(T, v) == IF Len(v.bits) >= T THEN v ELSE TE(T, v.bits \o Falses(T - Len(v.bits)))
Crop(T, v) == IF Len(v.bits) <= T THEN v ELSE TE(T, SubSeq(v.bits, 1, T))

\* binary digits of a natural, least significant first, no leading zeros (bin(v)[2:] reversed; "0" for 0)
RECURSIVE Digits(_)
Digits(v) == IF v < 2 THEN <<v>> ELSE <<v % 2>> \o Digits(v \div 2)
BoolN(d) == IF d = 1 THEN NTrue ELSE NFalse
\* QintImp.const
Const(T, v) == LET d == Digits(v % (2^T)) IN Fill(T, TE(T, [j \in DOMAIN d |-> BoolN(d[j])]))
\* const_to_qtype for an int literal: the first of Qint2,4,6,8,12,16 it fits
ConstToQtype(v) == LET T == CHOOSE t \in {2, 4, 6, 8, 12, 16} : v < 2^t /\ \A u \in {2, 4, 6, 8, 12, 16} : v < 2^u => t <= u
                   IN Const(T, v)
\* from_bool of a constant bit list
ValOf(bs) == LET RECURSIVE F(_) F(j) == IF j > Len(bs) THEN 0 ELSE (IF bs[j].op = "true" THEN 2^(j - 1) ELSE 0) + F(j + 1) IN F(1)

BEq(a, b)  == MkNot(MkXor(<<a, b>>))          \* _eq
BNeq(a, b) == MkXor(<<a, b>>)                 \* _neq
\* _full_adder(c, a, b) = ((a & b) ^ ((a ^ b) & c), Xor(Xor(a, b), c))
FACarry(c, a, b) == MkXor(<<MkAnd({a, b}), MkAnd({MkXor(<<a, b>>), c})>>)
FASum(c, a, b)   == MkXor(<<MkXor(<<a, b>>), c>>)
Min(a, b) == IF a < b THEN a ELSE b
Max(a, b) == IF a > b THEN a ELSE b

(***************************************************************************)
(* comparators (static methods; no filling: they walk the common prefix     *)
(* and then the extra high bits of the longer operand)                      *)
(***************************************************************************)
Eq(l, r) ==
  LET n == Min(Len(l.bits), Len(r.bits))
      RECURSIVE Z(_, _)
      Z(j, ex) == IF j > n THEN ex ELSE Z(j + 1, MkAnd({ex, BEq(l.bits[j], r.bits[j])}))
      long == IF Len(l.bits) > Len(r.bits) THEN l.bits ELSE r.bits
      RECURSIVE H(_, _)
      H(j, ex) == IF j > Len(long) THEN ex ELSE H(j + 1, MkAnd({ex, MkNot(long[j])}))
  IN H(n + 1, Z(1, NTrue))
Neq(l, r) ==
  LET n == Min(Len(l.bits), Len(r.bits))
      RECURSIVE Z(_, _)
      Z(j, ex) == IF j > n THEN ex ELSE Z(j + 1, MkOr({ex, BNeq(l.bits[j], r.bits[j])}))
      long == IF Len(l.bits) > Len(r.bits) THEN l.bits ELSE r.bits
      RECURSIVE H(_, _)
      H(j, ex) == IF j > Len(long) THEN ex ELSE H(j + 1, MkOr({ex, long[j]}))
  IN H(n + 1, Z(1, NFalse))
Gt(l, r) ==
  LET n == Min(Len(l.bits), Len(r.bits))
      \* from the most significant common bit down; prev = the equalities of the bits already passed
      RECURSIVE W(_, _, _)
      W(j, ex, prev) ==
        IF j < 1 THEN ex
        ELSE LET a == l.bits[j]
                 b == r.bits[j]
                 term == IF j = n THEN MkAnd({a, MkNot(b)}) ELSE MkOr({ex, MkAnd(prev \cup {a, MkNot(b)})})
             IN W(j - 1, term, prev \cup {BEq(a, b)})
      common == W(n, NFalse, {})
      RECURSIVE HL(_, _)
      HL(j, ex) == IF j > Len(l.bits) THEN ex ELSE HL(j + 1, MkOr({ex, l.bits[j]}))           \* left wider: any extra bit set
      RECURSIVE HR(_, _)
      HR(j, ex) == IF j > Len(r.bits) THEN ex ELSE HR(j + 1, MkAnd({ex, MkNot(r.bits[j])}))   \* right wider: all extra bits clear
  IN IF Len(l.bits) > Len(r.bits) THEN HL(n + 1, common)
     ELSE IF Len(l.bits) < Len(r.bits) THEN HR(n + 1, common)
     ELSE common
Lt(l, r)  == MkAnd({MkNot(Gt(l, r)), MkNot(Eq(l, r))})
Lte(l, r) == MkNot(Gt(l, r))
Gte(l, r) == MkNot(Lt(l, r))

(***************************************************************************)
(* operations (classmethods: cls is the receiver's BIT_SIZE)                *)
(***************************************************************************)
BitwiseNot(v) == TE(v.w, [j \in DOMAIN v.bits |-> MkNot(v.bits[j])])
ShiftRight(v, i) == Fill(v.w, TE(v.w, SubSeq(v.bits, i + 1, Len(v.bits))))
ShiftLeft(v, i) == Crop(v.w, TE(v.w, Falses(i) \o v.bits))

\* the common widening of add and the bitwise operators: the shorter operand is filled by the other's type
Widen(l, r) ==
  IF Len(l.bits) > Len(r.bits) THEN <<l, Fill(l.w, r)>>
  ELSE IF Len(l.bits) < Len(r.bits) THEN <<Fill(r.w, l), r>>
  ELSE <<l, r>>
Add(cls, l0, r0) ==
  LET p == Widen(l0, r0)
      l == p[1]
      r == p[2]
      n == Min(Len(l.bits), Len(r.bits))
      RECURSIVE S(_, _)
      S(j, carry) == IF j > n THEN <<>> ELSE <<FASum(carry, l.bits[j], r.bits[j])>> \o S(j + 1, FACarry(carry, l.bits[j], r.bits[j]))
  IN TE(IF cls > l.w THEN cls ELSE l.w, S(1, NFalse))
Sub(cls, l0, r) ==
  LET l == IF Len(l0.bits) < Len(r.bits) THEN Fill(r.w, l0) ELSE l0
      an == BitwiseNot(Fill(cls, l))
      su == Add(cls, an, Fill(cls, r))
  IN BitwiseNot(su)
Bitwise(o, l0, r0) ==
  LET p == Widen(l0, r0)
      n == Min(Len(p[1].bits), Len(p[2].bits))
      f(a, b) == IF o = "xor" THEN MkXor(<<a, b>>) ELSE IF o = "and" THEN MkAnd({a, b}) ELSE MkOr({a, b})
  IN TE(p[2].w, [j \in 1..n |-> f(p[1].bits[j], p[2].bits[j])])

MulSizing(n, m) == IF n + m <= 2 THEN 2 ELSE IF n + m <= 4 THEN 4 ELSE IF n + m <= 6 THEN 6 ELSE IF n + m <= 8 THEN 8
                   ELSE IF n + m <= 12 THEN 12 ELSE 16
\* shift-and-add over the set bits of the constant, every partial product at the width of the result type
MulEvenConst(num, const, T) ==
  LET d == Digits(const)
      term(i) == Fill(T, ShiftLeft(TE(T, num.bits), i))
      RECURSIVE A(_, _, _)
      A(i, res, started) ==
        IF i > Len(d) THEN (IF started THEN res ELSE Const(T, 0))
        ELSE IF d[i] = 0 THEN A(i + 1, res, started)
        ELSE A(i + 1, IF started THEN Add(T, res, term(i - 1)) ELSE term(i - 1), TRUE)
  IN TE(T, A(1, TE(T, <<>>), FALSE).bits)
\* the schoolbook product: row i of partial products added into product[i .. i+m], carry into product[i+m]
Product(l, r, n, m) ==
  LET RECURSIVE Row(_, _, _, _)
      \* j-th column of row i: returns the product vector after the row
      Row(i, j, prod, carry) ==
        IF j > m THEN (IF i - 1 + m < n + m THEN [prod EXCEPT ![i + m] = carry] ELSE prod)
        ELSE LET pp == MkAnd({l.bits[i], r.bits[j]})
                 k == i + j - 1                                     \* 1-based index of product[i-1 + j-1]
             IN IF (i - 1) + (j - 1) < n + m - 1
                THEN Row(i, j + 1, [prod EXCEPT ![k] = FASum(carry, pp, prod[k])], FACarry(carry, pp, prod[k]))
                ELSE Row(i, j + 1, [prod EXCEPT ![k] = MkXor(<<carry, pp>>)], carry)
      RECURSIVE Rows_(_, _)
      Rows_(i, prod) == IF i > n THEN prod ELSE Rows_(i + 1, Row(i, 1, prod, NFalse))
  IN Rows_(1, Falses(n + m))
Mul(cls, l0, r0) ==
  LET l1 == IF IsConstTE(l0) THEN Fill(r0.w, l0) ELSE l0             \* constants take the other operand's type
      r1 == IF IsConstTE(r0) THEN Fill(l0.w, r0) ELSE r0
      n1 == Len(l1.bits)
      m1 == Len(r1.bits)
      l == IF n1 < m1 THEN Fill(r0.w, l1) ELSE l1
      r == IF n1 > m1 THEN Fill(l0.w, r1) ELSE r1
      n == Max(n1, m1)
      T == MulSizing(n, n)
      constcase == IsConstTE(l) \/ IsConstTE(r)
      num == IF IsConstTE(r) THEN l ELSE r
      cst == ValOf(IF IsConstTE(r) THEN r.bits ELSE l.bits)
  IN IF constcase /\ cst % 2 = 0 THEN Crop(T, Fill(T, MulEvenConst(num, cst, T)))
     ELSE Crop(T, Fill(T, TE(T, Product(l, r, Len(l.bits), Len(r.bits)))))
\* x mod y = x & (y - 1): "reject" when y is a constant that is not a power of two
IsPow2(y) == y > 0 /\ \E k \in 0..16 : y = 2^k
Mod(l, r) ==
  IF IsConstTE(r) /\ ~IsPow2(ValOf(r.bits)) THEN TE(0, <<>>)        \* raises
  ELSE Bitwise("and", l, Sub(r.w, r, Const(r.w, 1)))
Rejects(v) == v.w = 0

(***************************************************************************)
(* dispatch of t_expression.py                                             *)
(***************************************************************************)
BinOp(op, l, r) ==
  CASE op = "Add" -> Add(l.w, l, r)
    [] op = "Sub" -> Sub(l.w, l, r)
    [] op = "Mult" -> Mul(l.w, l, r)
    [] op = "Mod" -> Mod(l, r)
    [] op = "BitXor" -> Bitwise("xor", l, r)
    [] op = "BitAnd" -> Bitwise("and", l, r)
    [] op = "BitOr" -> Bitwise("or", l, r)
Compare(op, l, r) ==
  CASE op = "Eq" -> Eq(l, r) [] op = "NotEq" -> Neq(l, r) [] op = "Gt" -> Gt(l, r)
    [] op = "Lt" -> Lt(l, r) [] op = "LtE" -> Lte(l, r) [] op = "GtE" -> Gte(l, r)

\* value of a typed expression on a row (for the arithmetic check): sum of 2^(j-1) over the bits true on the row
ValOn(v, env, U, row) ==
  LET RECURSIVE F(_) F(j) == IF j > Len(v.bits) THEN 0 ELSE (IF row \in SemN(v.bits[j], env, U) THEN 2^(j - 1) ELSE 0) + F(j + 1) IN F(1)
=============================================================================

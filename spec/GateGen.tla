------------------------------- MODULE GateGen -------------------------------
(***************************************************************************)
(* Generator specification: behaviours are GATE STRINGS over an alphabet on *)
(* NQ qubits, built one gate per step.  BFS to MaxLen enumerates all        *)
(* strings; -simulate samples long ones.  Families:                         *)
(*   "classical"  X, CX, CCX (every placement)                              *)
(*   "sections"   classical + identity + H(0), Z(1), T(2) + barrier (C11/C12) *)
(*   "xhbar"      X gates, barriers and H: many short classical sections that   *)
(*                cancel or shrink, with barriers inside and between them     *)
(*                (several sections of one circuit get replaced: C12)         *)
(*   "cxnet"      CX networks (qubit permutations, linear maps) + H(0): the   *)
(*                sections a re-synthesis can shorten or relabel (C12)       *)
(*   "full"       every kind the library has, phases k*pi/8      (C13/C14)  *)
(*   "zerotest"   X on (nearly) all controls, one MCX / MCtrl(X) with 4..NQ-1 *)
(*                controls, the same X again: wide conjunctions of negated    *)
(*                controls (every member is an initial state)                 *)
(* A gate is [k, w, m] in the vocabulary of Circuit / QSim plus "cls", the  *)
(* library class that the harness must instantiate.                         *)
(***************************************************************************)
EXTENDS Integers, Sequences, FiniteSets, TLC, Json

CONSTANTS NQ, MaxLen, Family, MinLen
VARIABLE s

Qs == 0..(NQ - 1)
G(cls, k, w, m) == [cls |-> cls, k |-> k, w |-> w, m |-> m]
X1 == {G("X", "X", <<q>>, 0) : q \in Qs}
CX2 == {G("CX", "MCX", <<a, b>>, 0) : a, b \in Qs} \ {G("CX", "MCX", <<a, a>>, 0) : a \in Qs}
CCX3 == {g \in {G("CCX", "MCX", <<a, b, c>>, 0) : a, b, c \in Qs} : g.w[1] < g.w[2] /\ g.w[3] # g.w[1] /\ g.w[3] # g.w[2]}
MCX4 == IF NQ >= 4 THEN {G("MCX", "MCX", <<0, 1, 2, 3>>, 0), G("MCX", "MCX", <<3, 1, 0, 2>>, 0)} ELSE {}
Bar == {G("Barrier", "BAR", <<>>, 0)}
Single(cls) == {G(cls, cls, <<q>>, 0) : q \in Qs}
CZ2 == {g \in {G("CZ", "MCZ", <<a, b>>, 0) : a, b \in Qs} : g.w[1] # g.w[2]}
SW2 == {g \in {G("Swap", "SWAP", <<a, b>>, 0) : a, b \in Qs} : g.w[1] < g.w[2]}
CP2 == {g \in {G("CP", "MCP", <<a, b>>, m) : a, b \in Qs, m \in {1, 2, 4, 12}} : g.w[1] # g.w[2]}
MCZ3 == IF NQ >= 3 THEN {G("MCtrlZ", "MCZ", <<0, 1, 2>>, 0), G("MCtrlZ", "MCZ", <<2, 0, 1>>, 0)} ELSE {}
\* the same number of controls through the generic multi-controlled classes (X and Z)
MCX3 == IF NQ >= 3 THEN {G("MCX", "MCX", <<0, 1, 2>>, 0), G("MCtrlX", "MCX", <<1, 2, 0>>, 0)} ELSE {}
MCZ4 == IF NQ >= 4 THEN {G("MCtrlZ", "MCZ", <<0, 1, 2, 3>>, 0), G("MCtrlZ", "MCZ", <<3, 0, 2, 1>>, 0)} ELSE {}

Alphabet ==
  CASE Family = "classical" -> X1 \cup CX2 \cup CCX3
    [] Family = "sections" -> X1 \cup CX2 \cup CCX3 \cup MCX4 \cup Bar \cup {G("I", "I", <<NQ - 1>>, 0)}
                              \cup (IF NQ >= 3 THEN {G("MCtrlX", "MCX", <<1, 2, 0>>, 0)} ELSE {})      \* a Toffoli built through the generic MCtrl class
                              \cup {G("H", "H", <<0>>, 0), G("Z", "Z", <<1 % NQ>>, 0), G("T", "T", <<(NQ - 1)>>, 0)}
    [] Family = "xhbar" -> X1 \cup Bar \cup {G("H", "H", <<0>>, 0), G("H", "H", <<1 % NQ>>, 0)}
    [] Family = "cxnet" -> CX2 \cup {G("H", "H", <<0>>, 0)}
    [] Family = "zerotest" -> {}
    [] Family = "full" -> X1 \cup CX2 \cup CCX3 \cup MCX4 \cup Bar \cup {G("I", "I", <<0>>, 0)} \cup Single("H")
                          \cup {G("P", "P", <<q>>, m) : q \in {0, NQ - 1}, m \in {0, 2, 6}}              \* the single-qubit phase gate, incl. phase 0
                          \cup {G("CP", "MCP", <<0, 1>>, 0)} \cup Single("Z") \cup Single("S")
                          \cup Single("T") \cup Single("Y") \cup CZ2 \cup SW2 \cup CP2 \cup MCZ3 \cup MCX3 \cup MCZ4

\* zero tests: controls 0..k-1, target k; S = the controls that are negated
SetSeq(S) == LET RECURSIVE F(_) F(T) == IF T = {} THEN <<>> ELSE LET x == CHOOSE x \in T : \A y \in T : x <= y IN <<x>> \o F(T \ {x}) IN F(S)
XS(S) == [j \in 1..Cardinality(S) |-> G("X", "X", <<SetSeq(S)[j]>>, 0)]
ZeroTests ==
  UNION {{XS(S) \o <<G(cls, "MCX", [j \in 1..(k + 1) |-> j - 1], 0)>> \o XS(S) \o tail :
            cls \in {"MCX", "MCtrlX"}, S \in {T \in SUBSET (0..(k - 1)) : Cardinality(T) >= k - 1 \/ Cardinality(T) <= 1},
            tail \in {<<>>, <<G("CX", "MCX", <<NQ - 1, 0>>, 0)>>}} : k \in 4..(NQ - 1)}

Init == IF Family = "zerotest" THEN s \in ZeroTests ELSE s = <<>>
Next == Family # "zerotest" /\ Len(s) < MaxLen /\ \E g \in Alphabet : s' = Append(s, g)
Spec == Init /\ [][Next]_s
Emit == Len(s) >= MinLen => PrintT(<<"G", ToJson(s)>>)
=============================================================================

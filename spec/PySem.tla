------------------------------- MODULE PySem -------------------------------
(***************************************************************************)
(* Contract layer: REFERENCE MEANING of the typed Python subset that        *)
(* qlasskit compiles.  A definitional interpreter over the JSON form of the *)
(* Python ast (node class names kept: field "T"), independent of how the    *)
(* library translates: `for` iterates, `if` selects, calls apply the callee *)
(* to argument values.                                                      *)
(*                                                                         *)
(* A value is a record                                                      *)
(*   [st |-> "ok", t |-> type, v |-> ideal value, det |-> d, lit |-> b]      *)
(*   t    Codec type descriptor (documented width rules, see TypeRules)     *)
(*   v    IDEAL value: Python's unbounded integer (scaled by 2^f for        *)
(*        fixed), BOOLEAN, or a sequence of values for tuples               *)
(*   det  number of low bits of the library's bit-vector that wrap-around   *)
(*        arithmetic determines: INF while no intermediate has left the     *)
(*        range of its type; ring operations propagate the minimum,         *)
(*        non-ring consumers drop it to 0                                   *)
(*   lit  the expression is syntactically closed (a literal after constant  *)
(*        folding): typed as the literal of its folded value                *)
(* or [st |-> "undef"] (Python itself has no value here: IndexError, ...)   *)
(* or [st |-> "unmod", why |-> ..] (construct not modelled: case skipped).  *)
(*                                                                         *)
(* Deviation triggers: whenever evaluation passes through an operator shape *)
(* listed as a known finding of the library, its name is added to the       *)
(* "trig" set carried in the result, so the harness can tell an explained   *)
(* failure from a new one.  Triggers never change the reference meaning.    *)
(***************************************************************************)
EXTENDS Codec, TLC

INF == 99
MinI(a, b) == IF a < b THEN a ELSE b
MaxI(a, b) == IF a > b THEN a ELSE b

TBool == [t |-> "bool"]
TInt(w) == [t |-> "int", w |-> w]
TTuple(ts) == [t |-> "tuple", elts |-> ts]
IsIntLike(T) == T.t \in {"int", "char"}
IsNum(T) == T.t \in {"int", "char", "fixed"}

Ok(T, v, det, lit, trig) == [st |-> "ok", t |-> T, v |-> v, det |-> det, lit |-> lit, trig |-> trig]
Undef(why) == [st |-> "undef", why |-> why]
Unmod(why) == [st |-> "unmod", why |-> why]
Bad(x) == x.st # "ok"

InRange(T, v) == IF IsNum(T) THEN v >= 0 /\ v < P2(T.w) ELSE TRUE
\* after producing ideal v at type T: leaving the range caps det at the width
Norm(T, v, det, lit, trig) == Ok(T, v, IF InRange(T, v) THEN det ELSE MinI(det, T.w), lit, trig)

\* literal typing (documented): smallest of Qint2/4/6/8/12/16 that holds the value; a negative
\* folded literal is a Qint2 whose low 2 bits are determined
LitInt(v, trig) ==
  IF v >= 65536 THEN Unmod("literal-too-big")
  ELSE IF v < 0 THEN Ok(TInt(2), v, 2, TRUE, trig)
  ELSE Ok(TInt(ConstWidth(v)), v, INF, TRUE, trig)
LitBool(b, trig) == Ok(TBool, b, INF, TRUE, trig)

MulSize(s) == IF s <= 2 THEN 2 ELSE IF s <= 4 THEN 4 ELSE IF s <= 6 THEN 6 ELSE IF s <= 8 THEN 8
              ELSE IF s <= 12 THEN 12 ELSE 16

\* bitwise operators on naturals < 2^16
RECURSIVE BitOp(_, _, _, _)
BitOp(op, a, b, k) ==
  IF k = 16 THEN 0 ELSE
  LET x == (a \div P2(k)) % 2  y == (b \div P2(k)) % 2
      z == CASE op = "BitAnd" -> x * y
             [] op = "BitOr"  -> IF x + y > 0 THEN 1 ELSE 0
             [] op = "BitXor" -> (x + y) % 2
  IN z * P2(k) + BitOp(op, a, b, k + 1)

WiderT(a, b) == IF a.w >= b.w THEN a ELSE b      \* result type of if-expressions / bitwise: the wider operand

---------------------------------------------------------------------------
(* binary arithmetic on two ok values *)
SameLayout(a, b) == a.t = "fixed" /\ b.t = "fixed" /\ a.i = b.i /\ a.f = b.f

ArithInt(op, l, r) ==
  LET wl == l.t.w  wr == r.t.w  w == MaxI(wl, wr)
      det == MinI(l.det, r.det)
      tg == l.trig \cup r.trig
  IN
  CASE op = "Add" -> Norm(TInt(w), l.v + r.v, det, FALSE, tg)
    [] op = "Sub" -> Norm(TInt(w), l.v - r.v, det, FALSE, tg)
    [] op = "Mult" ->
         IF l.v > 46340 \/ r.v > 46340 \/ l.v < -46340 \/ r.v < -46340 THEN Unmod("mult-overflows-tlc-int")
         ELSE Norm(TInt(MulSize(2 * w)), l.v * r.v, det, FALSE, tg)
    [] op = "Mod" ->
         IF r.v <= 0 THEN Undef("mod-by-nonpositive")
         ELSE IF det < INF THEN Ok(TInt(w), l.v % r.v, 0, FALSE, tg)
         ELSE Ok(TInt(w), l.v % r.v, INF, FALSE,
                 \* the library computes x & (y - 1): right for every power of two; a constant y that is not
                 \* one is rejected; a NON-constant y is assumed to hold a power of two (known finding)
                 tg \cup (IF r.lit THEN {} ELSE {"mod-by-non-constant"}))
    [] op = "FloorDiv" ->
         IF r.v <= 0 THEN Undef("div-by-nonpositive")
         ELSE Ok(TInt(w), l.v \div r.v, IF det < INF THEN 0 ELSE INF, FALSE, tg)
    [] op \in {"BitAnd", "BitOr", "BitXor"} ->
         Norm(TInt(w), BitOp(op, l.v % 65536, r.v % 65536, 0), det, FALSE, tg)
    [] OTHER -> Unmod("int-binop")

\* two fixed-point layouts combine in the one that contains the other (integer and fractional part both not
\* shorter): the narrower operand is aligned on the binary point.  Layouts of which neither contains the other are
\* rejected by the library (never judged).
Contains(a, b) == a.i >= b.i /\ a.f >= b.f
Joinable(a, b) == Contains(a, b) \/ Contains(b, a)
JoinT(a, b) == IF Contains(a, b) THEN a ELSE b
Rescale(x, T) == x.v * P2(T.f - x.t.f)          \* the scaled integer of x in layout T (T.f >= x.t.f)
ArithFixed(op, l, r) ==
  LET tg == l.trig \cup r.trig IN
  IF ~Joinable(l.t, r.t) THEN Unmod("qfixed-layouts-not-nested")
  ELSE LET T == JoinT(l.t, r.t) IN
       CASE op = "Add" -> Norm(T, Rescale(l, T) + Rescale(r, T), MinI(l.det, r.det), FALSE, tg)
         [] op = "Sub" -> Norm(T, Rescale(l, T) - Rescale(r, T), MinI(l.det, r.det), FALSE, tg)
         [] OTHER -> Unmod("fixed-binop")

\* Python arithmetic on folded literals (closed sub-expressions)
FoldInt(op, a, b, tg) ==
  CASE op = "Add" -> LitInt(a + b, tg)
    [] op = "Sub" -> LitInt(a - b, tg)
    [] op = "Mult" -> IF a > 46340 \/ b > 46340 THEN Unmod("fold-overflow") ELSE LitInt(a * b, tg)
    [] op = "Mod" -> IF b <= 0 THEN Undef("mod") ELSE LitInt(a % b, tg)
    [] op = "FloorDiv" -> IF b <= 0 THEN Undef("div") ELSE LitInt(a \div b, tg)
    [] op = "LShift" -> IF b > 14 \/ a >= 65536 THEN Unmod("fold-overflow") ELSE LitInt(a * P2(b), tg)
    [] op = "RShift" -> LitInt(a \div P2(b), tg)
    [] op \in {"BitAnd", "BitOr", "BitXor"} ->
         IF a < 0 \/ b < 0 THEN Unmod("fold-bitop-negative") ELSE LitInt(BitOp(op, a, b, 0), tg)
    [] op = "Pow" -> IF b < 0 \/ b > 15 \/ (a > 1 /\ b > 15) THEN Unmod("fold-pow")
                     ELSE LET RECURSIVE P(_) P(k) == IF k = 0 THEN 1 ELSE a * P(k - 1)
                          IN IF a > 16 THEN Unmod("fold-pow") ELSE LitInt(P(b), tg)
    [] OTHER -> Unmod("fold-binop")

BinOpV(op, l, r) ==
  IF Bad(l) THEN l ELSE IF Bad(r) THEN r ELSE
  LET tg == l.trig \cup r.trig IN
  IF l.t.t = "bool" /\ r.t.t = "bool" THEN
       CASE op = "BitAnd" -> Ok(TBool, l.v /\ r.v, MinI(l.det, r.det), FALSE, tg)
         [] op = "BitOr"  -> Ok(TBool, l.v \/ r.v, MinI(l.det, r.det), FALSE, tg)
         [] op = "BitXor" -> Ok(TBool, l.v # r.v, MinI(l.det, r.det), FALSE, tg)
         [] OTHER -> Unmod("bool-binop")
  ELSE IF IsIntLike(l.t) /\ IsIntLike(r.t) THEN
       IF l.lit /\ r.lit THEN FoldInt(op, l.v, r.v, tg)
       ELSE IF op = "LShift" THEN
            IF ~r.lit THEN Unmod("shift-by-variable")
            ELSE IF r.v > 14 \/ l.v >= 65536 \/ l.v < 0 THEN Unmod("lshift-overflow")
            ELSE Norm(l.t, l.v * P2(r.v), l.det, FALSE, tg)
       ELSE IF op = "RShift" THEN
            IF ~r.lit THEN Unmod("shift-by-variable")
            ELSE IF l.det < INF \/ l.v < 0 THEN Ok(l.t, 0, 0, FALSE, tg)
            ELSE Ok(l.t, l.v \div P2(r.v), INF, FALSE, tg)
       ELSE IF op = "Pow" THEN Unmod("pow-not-rewritten")
       ELSE ArithInt(op, l, r)
  ELSE IF l.t.t = "fixed" /\ r.t.t = "fixed" THEN ArithFixed(op, l, r)
  \* fixed point times an integer (the library supports literal factors only; any other factor it accepts must
  \* still mean the product)
  ELSE IF op = "Mult" /\ l.t.t = "fixed" /\ IsIntLike(r.t) THEN
       Norm(l.t, l.v * r.v, MinI(l.det, r.det), FALSE, tg)
  ELSE IF op = "Mult" /\ r.t.t = "fixed" /\ IsIntLike(l.t) THEN
       Norm(r.t, l.v * r.v, MinI(l.det, r.det), FALSE, tg)
  ELSE Unmod("binop-operand-types")

---------------------------------------------------------------------------
(* comparisons *)
CmpHolds(op, a, b) ==
  CASE op = "Eq" -> a = b [] op = "NotEq" -> a # b [] op = "Lt" -> a < b
    [] op = "LtE" -> a <= b [] op = "Gt" -> a > b [] op = "GtE" -> a >= b

RECURSIVE FlatVals(_)
FlatVals(x) ==   \* leaves of a (nested tuple) value, in order
  IF x.t.t = "tuple" THEN LET RECURSIVE F(_) F(j) == IF j > Len(x.v) THEN <<>> ELSE FlatVals(x.v[j]) \o F(j + 1) IN F(1)
  ELSE <<x>>

CompareV(op, l, r) ==
  IF Bad(l) THEN l ELSE IF Bad(r) THEN r ELSE
  LET tg == l.trig \cup r.trig
      det == IF l.det = INF /\ r.det = INF THEN INF ELSE 0
  IN
  IF ~(op \in {"Eq", "NotEq", "Lt", "LtE", "Gt", "GtE"}) THEN Unmod("compare-op")
  ELSE IF l.t.t = "bool" /\ r.t.t = "bool" THEN
       IF op \in {"Eq", "NotEq"} THEN Ok(TBool, CmpHolds(op, l.v, r.v), det, l.lit /\ r.lit, tg) ELSE Unmod("bool-order")
  ELSE IF l.t.t = "tuple" /\ r.t.t = "tuple" THEN
       IF ~(op \in {"Eq", "NotEq"}) THEN Unmod("tuple-order") ELSE
       LET a == FlatVals(l) b == FlatVals(r) IN
       IF Len(a) # Len(b) THEN Unmod("tuple-shape")
       ELSE LET same == \A j \in 1..Len(a) : a[j].v = b[j].v
                d == IF \A j \in 1..Len(a) : a[j].det = INF /\ b[j].det = INF THEN INF ELSE 0
            IN Ok(TBool, IF op = "Eq" THEN same ELSE ~same, d, FALSE, tg)
  ELSE IF IsIntLike(l.t) /\ IsIntLike(r.t) THEN
       Ok(TBool, CmpHolds(op, l.v, r.v), det, l.lit /\ r.lit, tg)
  ELSE IF l.t.t = "fixed" /\ r.t.t = "fixed" THEN
       IF Joinable(l.t, r.t) THEN LET T == JoinT(l.t, r.t) IN Ok(TBool, CmpHolds(op, Rescale(l, T), Rescale(r, T)), det, FALSE, tg)
       ELSE Unmod("qfixed-layouts-not-nested")
  ELSE Unmod("compare-operand-types")

\* result of  body if test else orelse  given the three evaluated values
IfExpV(c, a, b) ==
  IF Bad(c) THEN c ELSE
  IF c.t.t # "bool" THEN Unmod("ifexp-test-type") ELSE
  IF c.lit THEN (IF c.v THEN a ELSE b)                      \* constant test: folded away
  ELSE IF Bad(a) /\ Bad(b) THEN a
  ELSE IF Bad(a) THEN (IF a.st = "unmod" \/ c.v THEN a ELSE [b EXCEPT !.det = IF c.det = INF THEN @ ELSE 0, !.lit = FALSE])
  ELSE IF Bad(b) THEN (IF b.st = "unmod" \/ ~c.v THEN b ELSE [a EXCEPT !.det = IF c.det = INF THEN @ ELSE 0, !.lit = FALSE])
  ELSE
  LET sel == IF c.v THEN a ELSE b
      tg == c.trig \cup a.trig \cup b.trig
      T == IF a.t = b.t THEN a.t
           ELSE IF IsNum(a.t) /\ IsNum(b.t) THEN (IF a.t.w >= b.t.w THEN a.t ELSE b.t)
           ELSE a.t
  IN IF a.t # b.t /\ ~(IsNum(a.t) /\ IsNum(b.t)) /\ a.t.t # "tuple" THEN Unmod("ifexp-branch-types")
     ELSE IF a.t.t = "fixed" /\ b.t.t = "fixed" /\ ~SameLayout(a.t, b.t) THEN Unmod("qfixed-mixed-layout")
     ELSE Ok(T, sel.v, IF c.det = INF THEN sel.det ELSE 0, FALSE, tg)

---------------------------------------------------------------------------
(* the interpreter *)
EnvPut(env, n, v) == [x \in DOMAIN env \cup {n} |-> IF x = n THEN v ELSE env[x]]
EmptyEnv == [x \in {} |-> 0]

\* float literal num/den: typed as the first shipped fixed type that holds it within 0.05 (documented
\* literal typing); its value is the literal truncated to that type's fractional bits
FixedTypes == << <<1,2>>, <<1,3>>, <<1,4>>, <<1,6>>, <<2,2>>, <<2,3>>, <<2,4>>, <<2,6>>, <<3,3>>, <<3,4>>,
                 <<3,6>>, <<4,4>>, <<4,6>> >>
FloatLit(num, den) ==
  LET Fl(k) == (num * P2(FixedTypes[k][2])) \div den
      Fits(k) == /\ (num \div den) < P2(FixedTypes[k][1])
                 /\ 20 * (num * P2(FixedTypes[k][2]) - Fl(k) * den) < den * P2(FixedTypes[k][2])
      K == {k \in 1..Len(FixedTypes) : Fits(k)}
  IN IF K = {} THEN Unmod("float-literal-no-type")
     ELSE LET k == CHOOSE k \in K : \A j \in K : k <= j IN
          Ok([t |-> "fixed", i |-> FixedTypes[k][1], f |-> FixedTypes[k][2], w |-> FixedTypes[k][1] + FixedTypes[k][2]],
             Fl(k), INF, TRUE, {})

ConstV(c) ==    \* a Constant node's payload
  CASE c.T = "bool" -> LitBool(c.v, {})
    [] c.T = "int" -> LitInt(c.v, {})
    [] c.T = "str" -> IF "code" \in DOMAIN c THEN Ok([t |-> "char", w |-> 8], c.code, INF, TRUE, {}) ELSE Unmod("str-constant")
    [] c.T = "float" -> IF "num" \in DOMAIN c THEN FloatLit(c.num, c.den) ELSE Unmod("float-constant")
    [] c.T = "node" -> Unmod("constant-holding-an-ast-node")
    [] OTHER -> Unmod("constant-kind")

TupleV(vals) ==
  LET bad == {j \in 1..Len(vals) : Bad(vals[j])} IN
  IF bad # {} THEN vals[CHOOSE j \in bad : \A k \in bad : j <= k]
  ELSE Ok(TTuple([j \in 1..Len(vals) |-> vals[j].t]), vals, INF,
          \A j \in 1..Len(vals) : vals[j].lit, UNION {vals[j].trig : j \in 1..Len(vals)})

\* coerce a value to a declared type T (return statement, call boundary): zero-extend or crop
RECURSIVE Coerce(_, _)
Coerce(x, T) ==
  IF Bad(x) THEN x
  ELSE IF T.t = "tuple" THEN
       IF x.t.t # "tuple" \/ Len(x.v) # Len(T.elts) THEN Unmod("coerce-tuple-shape")
       ELSE TupleV([j \in 1..Len(T.elts) |-> Coerce(x.v[j], T.elts[j])])
  ELSE IF T.t = "bool" THEN (IF x.t.t = "bool" THEN x ELSE Unmod("coerce-to-bool"))
  ELSE IF x.t.t = "bool" \/ x.t.t = "tuple" THEN Unmod("coerce-from-bool-or-tuple")
  \* a fixed point value in another layout is the same number: exact when the target has at least as many fractional
  \* bits (or the dropped ones are zero); leaving the integer range is what Norm accounts for
  ELSE IF T.t = "fixed" /\ x.t.t = "fixed" /\ ~SameLayout(T, x.t) THEN
       (IF T.f >= x.t.f THEN Norm(T, x.v * P2(T.f - x.t.f), x.det, FALSE, x.trig)
        ELSE IF x.v % P2(x.t.f - T.f) = 0 THEN Norm(T, x.v \div P2(x.t.f - T.f), x.det, FALSE, x.trig)
        ELSE Unmod("coerce-fixed-drops-fraction-bits"))
  ELSE IF (T.t = "fixed") # (x.t.t = "fixed") THEN Unmod("coerce-fixed-int")
  ELSE Norm(T, x.v, x.det, FALSE, x.trig)

RECURSIVE Eval(_, _, _)
RECURSIVE EvalSeq(_, _, _)
RECURSIVE Exec(_, _, _, _)
RECURSIVE CallFun(_, _, _)
RECURSIVE Elements(_)

\* the elements a for loop / len / sum / min / max / all / any ranges over
Elements(x) == IF Bad(x) THEN <<x>> ELSE IF x.t.t = "tuple" THEN x.v ELSE <<x>>

EvalSeq(nodes, env, fns) == [j \in 1..Len(nodes) |-> Eval(nodes[j], env, fns)]

RECURSIVE FoldR(_, _)
FoldR(op, xs) == IF Len(xs) = 1 THEN xs[1] ELSE BinOpV(op, xs[1], FoldR(op, Tail(xs)))

RECURSIVE MinMax(_, _)
MinMax(isMax, xs) ==     \* a if (a > b and a > c ...) else minmax(rest)   /   a <= ... for min
  IF Len(xs) = 1 THEN xs[1] ELSE
  LET a == xs[1]
      rest == Tail(xs)
      cmps == [j \in 1..Len(rest) |-> CompareV(IF isMax THEN "Gt" ELSE "LtE", a, rest[j])]
      bad == {j \in 1..Len(rest) : Bad(cmps[j])}
  IN IF bad # {} THEN cmps[CHOOSE j \in bad : TRUE]
     ELSE LET c == Ok(TBool, \A j \in 1..Len(rest) : cmps[j].v,
                      IF \A j \in 1..Len(rest) : cmps[j].det = INF THEN INF ELSE 0,
                      \A j \in 1..Len(rest) : cmps[j].lit, UNION {cmps[j].trig : j \in 1..Len(rest)})
          IN IfExpV(c, a, MinMax(isMax, rest))

BoolFold(isAnd, xs) ==
  LET bad == {j \in 1..Len(xs) : Bad(xs[j])} IN
  IF bad # {} THEN xs[CHOOSE j \in bad : \A k \in bad : j <= k]
  ELSE IF \E j \in 1..Len(xs) : xs[j].t.t # "bool" THEN Unmod("boolop-operand-type")
  ELSE Ok(TBool, IF isAnd THEN \A j \in 1..Len(xs) : xs[j].v ELSE \E j \in 1..Len(xs) : xs[j].v,
          IF \A j \in 1..Len(xs) : xs[j].det = INF THEN INF ELSE 0, FALSE, UNION {xs[j].trig : j \in 1..Len(xs)})

\* x[k] for a constant k
Index(x, k) ==
  IF Bad(x) THEN x
  ELSE IF x.t.t = "tuple" THEN (IF k >= 0 /\ k < Len(x.v) THEN x.v[k + 1]
                                ELSE IF k < 0 /\ k >= -Len(x.v) THEN x.v[Len(x.v) + k + 1]      \* Python: t[-1] is the last element
                                ELSE Undef("tuple-index"))
  ELSE IF IsIntLike(x.t) THEN
       IF k < 0 \/ k >= x.t.w THEN Undef("bit-index")
       ELSE Ok(TBool, ((x.v % 65536) \div P2(k)) % 2 = 1, IF x.det > k THEN INF ELSE 0, FALSE, x.trig)
  ELSE Unmod("subscript-base")

\* x[i] for a computed index i: the element when i is in range, no Python meaning otherwise;
\* the documented translation is a chain of if-expressions, hence the if-expression typing
IndexVar(x, i) ==
  IF Bad(x) THEN x ELSE IF Bad(i) THEN i
  ELSE IF x.t.t # "tuple" \/ ~IsIntLike(i.t) THEN Unmod("subscript-var")
  ELSE IF i.det < INF THEN Unmod("subscript-overflowed-index")
  ELSE IF i.v < 0 \/ i.v >= Len(x.v) THEN Undef("index-out-of-range")
  ELSE LET
           e == x.v[i.v + 1]
           allnum == \A j \in 1..Len(x.v) : ~Bad(x.v[j]) /\ IsNum(x.v[j].t)
           wmax == IF allnum THEN CHOOSE w \in {x.v[j].t.w : j \in 1..Len(x.v)} : \A j \in 1..Len(x.v) : x.v[j].t.w <= w ELSE 0
           tw == IF allnum THEN (CHOOSE j \in 1..Len(x.v) : x.v[j].t.w = wmax) ELSE 1
       IN IF Bad(e) THEN e
          ELSE IF allnum THEN Ok(x.v[tw].t, e.v, e.det, FALSE, e.trig \cup i.trig)
          ELSE [e EXCEPT !.lit = FALSE, !.trig = @ \cup i.trig]

Eval(n, env, fns) ==
  CASE n.T = "Constant" -> ConstV(n.value)
    [] n.T = "Name" -> IF n.id \in DOMAIN env THEN env[n.id] ELSE Undef("unbound-name")
    [] n.T \in {"Tuple", "List"} -> TupleV(EvalSeq(n.elts, env, fns))
    [] n.T = "BoolOp" -> BoolFold(n.op.T = "And", EvalSeq(n.values, env, fns))
    [] n.T = "UnaryOp" ->
         LET x == Eval(n.operand, env, fns) IN
         IF Bad(x) THEN x
         ELSE IF n.op.T = "Not" THEN
              (IF x.t.t = "bool" THEN Ok(TBool, ~x.v, x.det, x.lit, x.trig) ELSE Unmod("not-of-non-bool"))
         ELSE IF n.op.T = "Invert" THEN
              IF ~IsIntLike(x.t) THEN Unmod("invert-operand")
              ELSE IF x.lit THEN LitInt(-x.v - 1, x.trig)               \* Python's ~ on a folded literal
              ELSE IF x.det = INF THEN Ok(x.t, P2(x.t.w) - 1 - x.v, INF, FALSE, x.trig)
              ELSE Ok(x.t, (P2(16) - 1 - (x.v % 65536)) % P2(x.t.w), x.det, FALSE, x.trig)
         ELSE IF n.op.T = "USub" THEN (IF x.lit /\ IsIntLike(x.t) THEN LitInt(-x.v, x.trig) ELSE Unmod("unary-minus"))
         ELSE IF n.op.T = "UAdd" THEN (IF x.lit THEN x ELSE Unmod("unary-plus"))
         ELSE Unmod("unaryop")
    [] n.T = "BinOp" ->
         IF n.op.T = "Pow" THEN
            LET b == Eval(n.left, env, fns) e == Eval(n.right, env, fns) IN
            IF Bad(b) THEN b ELSE IF Bad(e) THEN e
            ELSE IF b.lit /\ e.lit THEN FoldInt("Pow", b.v, e.v, b.trig)
            ELSE IF ~e.lit \/ e.v < 0 \/ e.v > 8 THEN Unmod("pow-exponent")
            ELSE IF e.v = 0 THEN LitInt(1, {})
            ELSE LET RECURSIVE P(_) P(k) == IF k = 1 THEN b ELSE BinOpV("Mult", P(k - 1), b) IN P(e.v)
         ELSE BinOpV(n.op.T, Eval(n.left, env, fns), Eval(n.right, env, fns))
    [] n.T = "Compare" ->
         IF Len(n.ops) = 1 THEN CompareV(n.ops[1].T, Eval(n.left, env, fns), Eval(n.comparators[1], env, fns))
         ELSE LET xs == <<Eval(n.left, env, fns)>> \o EvalSeq(n.comparators, env, fns)
                  cs == [j \in 1..Len(n.ops) |-> CompareV(n.ops[j].T, xs[j], xs[j + 1])]
              IN BoolFold(TRUE, cs)
    [] n.T = "IfExp" -> IfExpV(Eval(n.test, env, fns), Eval(n.body, env, fns), Eval(n.orelse, env, fns))
    [] n.T = "Subscript" ->
         LET x == Eval(n.value, env, fns)
             i == Eval(n.slice, env, fns)
         IN IF Bad(i) THEN i
            ELSE IF i.lit /\ IsIntLike(i.t) THEN Index(x, i.v)
            ELSE IndexVar(x, i)
    [] n.T = "Call" ->
         IF n.func.T # "Name" THEN Unmod("call-target")
         ELSE IF "cast" \in DOMAIN n THEN          \* QintN(const) / QfixedI_F(const): typed constant
              LET x == Eval(n.args[1], env, fns) IN
              IF Bad(x) THEN x ELSE IF ~x.lit THEN Unmod("cast-of-non-constant")
              ELSE IF n.cast.t = "int" /\ IsIntLike(x.t) THEN Ok(n.cast, x.v % P2(n.cast.w), INF, FALSE, x.trig)
              ELSE IF n.cast.t = "fixed" /\ x.t.t = "fixed" /\ x.t.f <= n.cast.f /\ x.v * P2(n.cast.f - x.t.f) < P2(n.cast.w)
                   THEN Ok(n.cast, x.v * P2(n.cast.f - x.t.f), INF, FALSE, x.trig)
              ELSE IF n.cast.t = "fixed" /\ IsIntLike(x.t) /\ x.v >= 0 /\ x.v < P2(n.cast.i)
                   THEN Ok(n.cast, x.v * P2(n.cast.f), INF, FALSE, x.trig)
              ELSE Unmod("cast")
         ELSE IF n.func.id \in DOMAIN fns THEN CallFun(fns[n.func.id], EvalSeq(n.args, env, fns), fns)
         ELSE LET f == n.func.id
                  args == EvalSeq(n.args, env, fns)
                  els == IF Len(args) = 1 THEN Elements(args[1]) ELSE args
              IN
              IF Len(args) = 0 THEN Unmod("call-no-args")
              ELSE IF Bad(args[1]) THEN args[1]
              ELSE IF f = "len" THEN (IF Len(args) = 1 THEN LitInt(Len(els), {}) ELSE Unmod("len-arity"))
              ELSE IF f = "sum" THEN (IF Len(args) = 1 THEN FoldR("Add", els) ELSE Unmod("sum-arity"))
              ELSE IF f \in {"min", "max"} THEN MinMax(f = "max", els)
              ELSE IF f \in {"all", "any"} THEN (IF Len(args) = 1 THEN BoolFold(f = "all", els) ELSE Unmod("anyall-arity"))
              ELSE IF f \in {"ord", "chr"} THEN (IF Len(args) = 1 THEN [args[1] EXCEPT !.lit = FALSE] ELSE Unmod("ordchr-arity"))
              ELSE IF f = "int" THEN
                   LET x == args[1] IN
                   IF Len(args) # 1 THEN Unmod("int-arity")
                   ELSE IF IsIntLike(x.t) THEN x
                   ELSE IF x.t.t = "fixed" THEN
                        (IF x.det < INF THEN Ok(TInt(x.t.i), 0, 0, FALSE, x.trig)
                         ELSE Ok(TInt(x.t.i), x.v \div P2(x.t.f), INF, FALSE, x.trig))
                   ELSE Unmod("int-operand")
              ELSE IF f = "float" THEN
                   LET x == args[1] IN
                   IF Len(args) # 1 THEN Unmod("float-arity")
                   ELSE IF x.t.t = "fixed" THEN x
                   ELSE IF IsIntLike(x.t) /\ x.t.w \in {1, 2, 3, 4} THEN
                        LET F == IF x.t.w = 1 THEN 2 ELSE IF x.t.w = 2 THEN 2 ELSE IF x.t.w = 3 THEN 3 ELSE 4
                            T == [t |-> "fixed", i |-> x.t.w, f |-> F, w |-> x.t.w + F]
                        IN (IF x.det < INF THEN Ok(T, 0, 0, FALSE, x.trig) ELSE Ok(T, x.v * P2(F), INF, FALSE, x.trig))
                   ELSE Unmod("float-operand")
              ELSE IF f = "print" THEN Unmod("print-as-expression")
              ELSE Unmod("call-unknown-function")
    [] OTHER -> Unmod("expression-node")

---------------------------------------------------------------------------
(* statements.  State: [env, fns, ret, st]; guard g = "plain" outside an if, *)
(* otherwise the (bool) value the enclosing if-tests gave on this row: the  *)
(* documented meaning of an if statement is "every assignment x = e in the  *)
(* branch becomes x = (e if test else x)", which is Python's branch meaning *)
(* on values and fixes the TYPE of x after the if to the wider of both.     *)

St0(env, fns) == [env |-> env, fns |-> fns, ret |-> Undef("no-return"), st |-> "ok", why |-> ""]
SBad(s, x) == [s EXCEPT !.st = x.st, !.why = IF "why" \in DOMAIN x THEN x.why ELSE ""]

\* assign value x to name under guard g (a value: [kind |-> "plain"] or an ok bool value)
AssignG(s, name, x, g) ==
  IF Bad(x) THEN SBad(s, x)
  ELSE IF g.kind = "plain" THEN [s EXCEPT !.env = EnvPut(s.env, name, [x EXCEPT !.lit = FALSE])]
  ELSE IF name \notin DOMAIN s.env THEN [s EXCEPT !.st = "unmod", !.why = "if-assigns-new-variable"]
  ELSE LET m == IF g.pos THEN IfExpV(g.c, x, s.env[name]) ELSE IfExpV(g.c, s.env[name], x) IN
       IF Bad(m) THEN SBad(s, m) ELSE [s EXCEPT !.env = EnvPut(s.env, name, m)]

Plain == [kind |-> "plain"]

RECURSIVE ExecOne(_, _, _)
RECURSIVE AssignTargets(_, _, _, _, _)

\* a, b = x   (x a tuple value)
AssignTargets(s, targets, x, g, k) ==
  IF k > Len(targets) THEN s
  ELSE IF targets[k].T # "Name" THEN [s EXCEPT !.st = "unmod", !.why = "assign-target"]
  ELSE AssignTargets(AssignG(s, targets[k].id, Index(x, k - 1), g), targets, x, g, k + 1)

ExecOne(s, n, g) ==
  IF s.st # "ok" THEN s
  ELSE CASE n.T = "Assign" ->
         IF Len(n.targets) # 1 THEN [s EXCEPT !.st = "unmod", !.why = "multi-target-assign"]
         ELSE LET x == Eval(n.value, s.env, s.fns) tg == n.targets[1] IN
              IF tg.T = "Name" THEN AssignG(s, tg.id, x, g)
              ELSE IF tg.T \in {"Tuple", "List"} THEN
                   (IF Bad(x) THEN SBad(s, x)
                    ELSE IF x.t.t # "tuple" \/ Len(x.v) # Len(tg.elts) THEN [s EXCEPT !.st = "undef", !.why = "unpack"]
                    ELSE AssignTargets(s, tg.elts, x, g, 1))
              ELSE [s EXCEPT !.st = "unmod", !.why = "assign-target"]
    [] n.T = "AnnAssign" ->
         IF "value" \notin DOMAIN n \/ n.target.T # "Name" THEN [s EXCEPT !.st = "unmod", !.why = "annassign"]
         ELSE AssignG(s, n.target.id, Eval(n.value, s.env, s.fns), g)
    [] n.T = "AugAssign" ->
         IF n.target.T # "Name" THEN [s EXCEPT !.st = "unmod", !.why = "augassign-target"]
         ELSE AssignG(s, n.target.id,
                      Eval([T |-> "BinOp", left |-> [T |-> "Name", id |-> n.target.id], op |-> n.op, right |-> n.value],
                           s.env, s.fns), g)
    [] n.T = "Return" ->
         IF g.kind # "plain" THEN [s EXCEPT !.st = "unmod", !.why = "return-inside-if"]
         ELSE LET x == Eval(n.value, s.env, s.fns) IN
              IF Bad(x) THEN SBad(s, x) ELSE [s EXCEPT !.ret = x, !.st = "returned"]
    [] n.T = "Expr" -> s
    [] n.T = "Pass" -> s
    [] n.T = "FunctionDef" -> [s EXCEPT !.fns = EnvPut(s.fns, n.name, n)]
    [] n.T = "If" ->
         LET c == Eval(n.test, s.env, s.fns) IN
         IF Bad(c) THEN SBad(s, c)
         ELSE IF c.t.t # "bool" THEN [s EXCEPT !.st = "unmod", !.why = "if-test-type"]
         ELSE IF c.lit THEN Exec(s, IF c.v THEN n.body ELSE (IF "orelse" \in DOMAIN n THEN n.orelse ELSE <<>>), g, 1)
         ELSE IF g.kind # "plain" /\ g.pos THEN [s EXCEPT !.st = "unmod", !.why = "if-nested-in-if-body"]
         ELSE \* an if nested in an else branch (elif): its test is evaluated unconditionally, its
              \* assignments are guarded by both tests
              LET cc == IF g.kind = "plain" THEN c
                        ELSE Ok(TBool, (~g.c.v) /\ c.v, IF g.c.det = INF /\ c.det = INF THEN INF ELSE 0, FALSE, g.c.trig \cup c.trig)
                  cn == IF g.kind = "plain" THEN c
                        ELSE Ok(TBool, (~g.c.v) /\ ~c.v, IF g.c.det = INF /\ c.det = INF THEN INF ELSE 0, FALSE, g.c.trig \cup c.trig)
                  s1 == Exec(s, n.body, [kind |-> "if", c |-> cc, pos |-> TRUE], 1)
              IN IF "orelse" \in DOMAIN n
                 THEN Exec(s1, n.orelse, IF g.kind = "plain" THEN [kind |-> "if", c |-> c, pos |-> FALSE]
                                                         ELSE [kind |-> "if", c |-> cn, pos |-> TRUE], 1)
                 ELSE s1
    [] n.T = "For" ->
         IF n.target.T # "Name" THEN [s EXCEPT !.st = "unmod", !.why = "for-target"]
         ELSE LET its == IF n.iter.T = "Call" /\ n.iter.func.T = "Name" /\ n.iter.func.id = "range"
                         THEN LET as == EvalSeq(n.iter.args, s.env, s.fns) IN
                              IF \E j \in 1..Len(as) : Bad(as[j]) \/ ~as[j].lit THEN <<Unmod("range-args")>>
                              ELSE IF Len(as) = 1 THEN [j \in 1..MaxI(as[1].v, 0) |-> LitInt(j - 1, {})]
                              ELSE IF Len(as) = 2 THEN [j \in 1..MaxI(as[2].v - as[1].v, 0) |-> LitInt(as[1].v + j - 1, {})]
                              ELSE <<Unmod("range-step")>>
                         ELSE Elements(Eval(n.iter, s.env, s.fns))
                  RECURSIVE L(_, _)
                  L(ss, j) == IF j > Len(its) \/ ss.st # "ok" THEN ss
                              ELSE IF Bad(its[j]) THEN SBad(ss, its[j])
                              ELSE L(Exec([ss EXCEPT !.env = EnvPut(ss.env, n.target.id, its[j])], n.body, g, 1), j + 1)
              IN L(s, 1)
    [] OTHER -> [s EXCEPT !.st = "unmod", !.why = "statement-node"]

Exec(s, stmts, g, k) ==
  IF k > Len(stmts) \/ s.st # "ok" THEN s ELSE Exec(ExecOne(s, stmts[k], g), stmts, g, k + 1)

\* apply a function definition node to argument values
CallFun(def, args, fns) ==
  LET ps == def.args.args IN
  IF Len(ps) # Len(args) THEN Unmod("call-arity")
  ELSE IF \E j \in 1..Len(args) : Bad(args[j]) THEN args[CHOOSE j \in 1..Len(args) : Bad(args[j])]
  ELSE IF \E j \in 1..Len(ps) : "tdesc" \notin DOMAIN ps[j] THEN Unmod("callee-annotation")
  ELSE IF "rdesc" \notin DOMAIN def THEN Unmod("callee-return-annotation")
  ELSE
  LET RECURSIVE B(_, _)
      B(j, env) == IF j > Len(ps) THEN env ELSE B(j + 1, EnvPut(env, ps[j].arg, [Coerce(args[j], ps[j].tdesc) EXCEPT !.lit = FALSE]))
      cargs == [j \in 1..Len(ps) |-> Coerce(args[j], ps[j].tdesc)]
  IN IF \E j \in 1..Len(ps) : Bad(cargs[j]) THEN cargs[CHOOSE j \in 1..Len(ps) : Bad(cargs[j])]
     ELSE LET s == Exec(St0(B(1, EmptyEnv), fns), def.body, Plain, 1) IN
          IF s.st = "returned" THEN Coerce(s.ret, def.rdesc)
          ELSE IF s.st = "ok" THEN Undef("no-return")
          ELSE [st |-> s.st, why |-> s.why]

(***************************************************************************)
(* Entry points.  Arguments of row r: bit k (0-based, argument-bit order)   *)
(* of r is input bit k; each argument is decoded with Codec.Dec.            *)
(***************************************************************************)
RECURSIVE ToVal(_, _)
ToVal(T, v) ==     \* Codec value -> interpreter value
  IF T.t = "tuple" THEN Ok(T, [j \in 1..Len(T.elts) |-> ToVal(T.elts[j], v[j])], INF, FALSE, {})
  ELSE Ok(T, v, INF, FALSE, {})

RECURSIVE FromVal(_)
FromVal(x) == IF x.t.t = "tuple" THEN [j \in 1..Len(x.v) |-> FromVal(x.v[j])] ELSE x.v

\* determined-bit mask of a (coerced) return value: sequence of BOOLEAN, one per encoding bit
RECURSIVE DetMask(_)
DetMask(x) ==
  IF x.t.t = "tuple" THEN LET RECURSIVE F(_) F(j) == IF j > Len(x.v) THEN <<>> ELSE DetMask(x.v[j]) \o F(j + 1) IN F(1)
  ELSE IF x.t.t = "bool" THEN <<x.det > 0>>
  ELSE IF x.t.t = "fixed" THEN [k \in 1..x.t.w |-> x.det = INF]     \* fixed: all or nothing
  ELSE [k \in 1..x.t.w |-> k <= x.det]

\* reduce an ideal value into its type's range (for encoding): value mod 2^w
RECURSIVE Reduce(_)
Reduce(x) ==
  IF x.t.t = "tuple" THEN [j \in 1..Len(x.v) |-> Reduce(x.v[j])]
  ELSE IF x.t.t = "bool" THEN x.v
  ELSE x.v % P2(x.t.w)

RECURSIVE AllTrig(_)
AllTrig(x) == IF Bad(x) THEN {} ELSE IF x.t.t = "tuple" THEN x.trig \cup UNION {AllTrig(x.v[j]) : j \in 1..Len(x.v)} ELSE x.trig

\* a parameter value has its DECLARED type (Parameter[Qint[4]] bound to 1 is a Qint4): the literal's own
\* (smallest) type is what the library gives it -- wherever the two differ the value carries the trigger
\* "parameter-typed-by-its-value", so that a failure explained by that typing can be told from a new one
RECURSIVE ParamVal(_, _)
ParamVal(x, D) ==
  IF Bad(x) THEN x
  ELSE IF D.t = "tuple" /\ x.t.t = "tuple" /\ Len(D.elts) = Len(x.v)
       THEN Ok(D, [j \in 1..Len(x.v) |-> ParamVal(x.v[j], D.elts[j])], INF, FALSE, x.trig)
  ELSE IF D.t = "int" /\ x.t.t = "int" /\ x.t.w < D.w /\ x.v >= 0
       THEN Ok(D, x.v, INF, FALSE, x.trig \cup {"parameter-typed-by-its-value"})
  ELSE [x EXCEPT !.lit = FALSE]

\* run the function `def` (FunctionDef node with tdesc/rdesc decorations) on input row r
\* params: record name -> constant node payloads for Parameter[...] arguments (bound as literals)
RunRow(def, fns, r, params) ==
  LET ps == def.args.args
      RECURSIVE B(_, _, _)
      B(j, off, env) ==
        IF j > Len(ps) THEN env
        ELSE IF "param" \in DOMAIN ps[j]
             THEN B(j + 1, off, EnvPut(env, ps[j].arg, ParamVal(Eval(params[ps[j].arg], EmptyEnv, fns), ps[j].tdesc)))
             ELSE LET T == ps[j].tdesc  w == Width(T)
                      bits == [k \in 1..w |-> BitAt(r, off + k - 1)]
                  IN B(j + 1, off + w, EnvPut(env, ps[j].arg, ToVal(T, Dec(T, bits))))
      s == Exec(St0(B(1, 0, EmptyEnv), fns), def.body, Plain, 1)
  IN IF s.st = "returned" THEN Coerce(s.ret, def.rdesc)
     ELSE IF s.st = "ok" THEN Undef("no-return")
     ELSE [st |-> s.st, why |-> s.why]

NumInputBits(def) ==
  LET ps == def.args.args
      RECURSIVE F(_) F(j) == IF j > Len(ps) THEN 0 ELSE (IF "param" \in DOMAIN ps[j] THEN 0 ELSE Width(ps[j].tdesc)) + F(j + 1)
  IN F(1)
=============================================================================

------------------------------ MODULE ScriptGen ------------------------------
(***************************************************************************)
(* Generator specification for C17: every initial state is one invocation   *)
(* of a command-line tool: a script made of 1..3 functions of the pool (in  *)
(* a chosen order), the entry-point choice, the tool and its options.       *)
(***************************************************************************)
EXTENDS Integers, Sequences, FiniteSets, TLC, Json

CONSTANTS NFun, Tool
VARIABLE inv

Pool == 1..NFun
Scripts == {<<a>> : a \in Pool} \cup {<<a, b>> : a, b \in Pool} \cup {<<a, b, c>> : a \in {1, 2}, b \in {3, 4}, c \in Pool}
Distinct(s) == \A j, k \in 1..Len(s) : j # k => s[j] # s[k]
Entries(s) == IF Len(s) = 1 THEN {0, s[1]} ELSE {s[k] : k \in 1..Len(s)}     \* 0: no -e option (single-function script)
Bexp == {[tool |-> "py2bexp", script |-> s, entry |-> e, form |-> f, format |-> t] :
           s \in {x \in Scripts : Distinct(x)}, e \in Pool \cup {0}, f \in {"", "anf", "cnf", "dnf", "nnf"}, t \in {"sympy", "dimacs"}}
Qasm == {[tool |-> "py2qasm", script |-> s, entry |-> e, form |-> "", format |-> v] :
           s \in {x \in Scripts : Distinct(x)}, e \in Pool \cup {0}, v \in {"2.0", "3.0", ""}}
Pats == {x \in (IF Tool = "py2bexp" THEN Bexp ELSE Qasm) : x.entry \in Entries(x.script)}
Init == inv \in Pats
Next == FALSE /\ inv' = inv
Spec == Init /\ [][Next]_inv
Emit == PrintT(<<"I", ToJson(inv)>>)
=============================================================================

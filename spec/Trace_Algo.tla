----------------------------- MODULE Trace_Algo -----------------------------
(***************************************************************************)
(* C15 / C16: the algorithm wrappers meet their guarantees.  One case = one *)
(* wrapper object built by the real library: its gate list is simulated     *)
(* EXACTLY from |0..0> (QSim, ring Z) and the distribution of the search    *)
(* register is judged.  The marked set / the function is NOT taken from the *)
(* library: TLC evaluates the source of the predicate with PySem.           *)
(*                                                                         *)
(* case fields: kind ("grover" | "dj" | "bv" | "simon"), n (register size), *)
(*   gates, nq, outq (reported output qubits), def / fns (the function the  *)
(*   wrapper was built from, as in Trace_C01), argT (its argument type),    *)
(*   dec (decode_output of every register outcome, Codec value domain; for  *)
(*   dj: 1 = "Constant", 0 = "Balanced"), nmatch (declared n_matching),     *)
(*   secret / period (what the harness asked for: only used as a label)     *)
(***************************************************************************)
EXTENDS PySem, Algo, TLC, Json, IOUtils

Cases == JsonDeserialize(IOEnv.CASES)
VARIABLE i

MinOf(S) == CHOOSE x \in S : \A y \in S : x <= y
NoParams == [x \in {} |-> 0]

\* f(v) for register value v, by the reference interpreter
FVal(c, v) == RunRow(c.def, c.fns, v, NoParams)
Vals(c) == 0..(Q2(c.n) - 1)

Final(c) == RunQ("Z", c.gates, BasisState("Z", 0))

DecodeOK(c) == \A v \in Vals(c) : c.dec[v + 1] = Dec(c.argT, BitsOf(v, c.n))

Grover(c) ==
  LET bad == {v \in Vals(c) : FVal(c, v).st # "ok"} IN
  IF bad # {} THEN <<"skip", "predicate-unmodelled", 0>> ELSE
  LET sol == {v \in Vals(c) : FVal(c, v).v}
      N == Q2(c.n)  M == Cardinality(sol)
  IN
  IF M = 0 \/ 4 * M > N THEN <<"skip", "solution-count-outside-the-property", M>>
  ELSE IF c.nmatch # M THEN <<"skip", "declared-count-differs", M>>
  ELSE IF c.outq # [j \in 1..c.n |-> j - 1] THEN <<"fail", "output-qubits", 0>>
  ELSE IF NeedsC(c.gates) \/ AnyOpaque(c.gates) THEN <<"skip", "non-real-gates", 0>>
  ELSE
  LET s == Final(c)
      m == Marginal(s, c.outq)
      ideal == RunQ("Z", IdealGrover(c.n, sol, GroverIters(N, M)), BasisState("Z", 0))
      mi == Marginal(ideal, c.outq)
      psol == BSum(m, sol)
  IN IF ~SameDist(m, s.k, mi, ideal.k) THEN <<"fail", "distribution-depends-on-more-than-the-solution-set", MinOf({v \in Vals(c) : BShl(m[v], ideal.k) # BShl(mi[v], s.k)})>>
     ELSE IF \E a \in sol, b \in Vals(c) \ sol : ~BLess(m[b], m[a]) THEN <<"fail", "a-non-solution-is-at-least-as-likely-as-a-solution", 0>>
     ELSE IF ~BLess(One(s.k), BShl(psol, 1)) THEN <<"fail", "solution-probability-not-above-one-half", 0>>
     ELSE IF ~DecodeOK(c) THEN <<"fail", "decode_output", MinOf({v \in Vals(c) : c.dec[v + 1] # Dec(c.argT, BitsOf(v, c.n))})>>
     ELSE <<"ok", "", M>>

DJ(c) ==
  LET bad == {v \in Vals(c) : FVal(c, v).st # "ok"} IN
  IF bad # {} THEN <<"skip", "function-unmodelled", 0>> ELSE
  LET ones == {v \in Vals(c) : FVal(c, v).v}
      N == Q2(c.n)
      const == ones = {} \/ ones = Vals(c)
      balanced == 2 * Cardinality(ones) = N
  IN IF ~const /\ ~balanced THEN <<"skip", "neither-constant-nor-balanced", 0>>
     ELSE IF NeedsC(c.gates) \/ AnyOpaque(c.gates) THEN <<"skip", "non-real-gates", 0>>
     ELSE LET s == Final(c)  m == Marginal(s, c.outq) IN
          IF c.outq # [j \in 1..c.n |-> j - 1] THEN <<"fail", "output-qubits", 0>>
          ELSE IF const /\ m[0] # One(s.k) THEN <<"fail", "constant-function-not-all-zeros-with-certainty", 0>>
          ELSE IF balanced /\ m[0] # BZero THEN <<"fail", "balanced-function-measures-all-zeros", 0>>
          ELSE IF \E v \in Vals(c) : c.dec[v + 1] # (IF v = 0 THEN 1 ELSE 0) THEN <<"fail", "decode_output", 0>>
          ELSE <<"ok", IF const THEN "constant" ELSE "balanced", Cardinality(ones)>>

BV(c) ==
  LET bad == {v \in Vals(c) : FVal(c, v).st # "ok"} IN
  IF bad # {} THEN <<"skip", "function-unmodelled", 0>> ELSE
  \* the secret is read off the function itself: f must be x |-> s.x for s = (f(e_j))_j
  LET sec == LET RECURSIVE F(_) F(j) == IF j = c.n THEN 0 ELSE (IF FVal(c, Q2(j)).v THEN Q2(j) ELSE 0) + F(j + 1) IN F(0)
  IN IF \E v \in Vals(c) : FVal(c, v).v # (Parity(v, sec, c.n) = 1) THEN <<"skip", "not-an-inner-product-function", 0>>
     ELSE IF NeedsC(c.gates) \/ AnyOpaque(c.gates) THEN <<"skip", "non-real-gates", 0>>
     ELSE LET s == Final(c)  m == Marginal(s, c.outq) IN
          IF c.outq # [j \in 1..c.n |-> j - 1] THEN <<"fail", "output-qubits", 0>>
          ELSE IF m[sec] # One(s.k) THEN <<"fail", "secret-not-measured-with-certainty", sec>>
          ELSE IF ~DecodeOK(c) THEN <<"fail", "decode_output", 0>>
          ELSE <<"ok", "", sec>>

Simon(c) ==
  LET bad == {v \in Vals(c) : FVal(c, v).st # "ok"} IN
  IF bad # {} THEN <<"skip", "function-unmodelled", 0>> ELSE
  LET F(v) == FromVal(FVal(c, v))
      \* the period is read off the function: the unique s # 0 with f(x) = f(x xor s) for all x and f two-to-one
      Xor(a, b) == LET RECURSIVE G(_) G(j) == IF j = c.n THEN 0 ELSE (IF QBit(a, j) # QBit(b, j) THEN Q2(j) ELSE 0) + G(j + 1) IN G(0)
      per == {s \in Vals(c) \ {0} : \A x \in Vals(c) : F(x) = F(Xor(x, s))}
  IN IF Cardinality(per) # 1 \/ \E x, y \in Vals(c) : x # y /\ F(x) = F(y) /\ Xor(x, y) \notin per THEN <<"skip", "not-two-to-one-with-a-period", 0>>
     ELSE IF NeedsC(c.gates) \/ AnyOpaque(c.gates) THEN <<"skip", "non-real-gates", 0>>
     ELSE LET sp == CHOOSE s \in per : TRUE
              s == Final(c)  m == Marginal(s, c.outq)
              good == {y \in Vals(c) : Parity(y, sp, c.n) = 0}
          IN IF c.outq # [j \in 1..c.n |-> j - 1] THEN <<"fail", "output-qubits", 0>>
             ELSE IF \E y \in Vals(c) \ good : m[y] # BZero THEN <<"fail", "outcome-not-orthogonal-to-the-period", MinOf({y \in Vals(c) \ good : m[y] # BZero})>>
             ELSE IF \E y, z \in good : m[y] # m[z] THEN <<"fail", "orthogonal-outcomes-not-equally-likely", 0>>
             ELSE IF ~DecodeOK(c) THEN <<"fail", "decode_output", 0>>
             ELSE <<"ok", "", sp>>

\* decode_counts: c.cnts = << [v, thr, res] >> : a synthetic counts dictionary over the WHOLE register in which outcome v
\* of the output register occurs under two different full strings with counts 5 and 7 (they differ on a qubit outside
\* the output register when there is one), decoded with discard_lower = thr (0: no threshold).  The decoded
\* dictionary must hold exactly  decode_output(v) |-> 12  when 12 >= thr, and nothing otherwise.
CountsOK(c) ==
  \A k \in 1..Len(c.cnts) :
     LET t == c.cnts[k] IN
     IF t.thr <= 12 THEN Len(t.res) = 1 /\ t.res[1][1] = c.dec[t.v + 1] /\ t.res[1][2] = 12
     ELSE Len(t.res) = 0
Main(c) ==
  CASE c.kind = "grover" -> Grover(c)
    [] c.kind = "dj" -> DJ(c)
    [] c.kind = "bv" -> BV(c)
    [] c.kind = "simon" -> Simon(c)
Verdict(c) == IF ~CountsOK(c) THEN <<"fail", "decode_counts", 0>>
              ELSE IF c.argmut THEN <<"fail", "decode_output-modified-the-outcome-it-was-given", 0>>
              ELSE Main(c)

Init == i = 1
Next == /\ i <= Len(Cases)
        /\ PrintT(<<"V", Cases[i].id, Verdict(Cases[i])>>)
        /\ i' = i + 1
Spec == Init /\ [][Next]_i
=============================================================================

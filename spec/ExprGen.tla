------------------------------ MODULE ExprGen ------------------------------
(***************************************************************************)
(* Generator specification: its reachable states are boolean expression     *)
(* trees (BoolSem format) built by a postfix (stack) machine.  Every state  *)
(* whose stack holds exactly one tree is a complete expression; the Emit    *)
(* invariant prints it as JSON.  BFS to MaxTok tokens enumerates ALL trees  *)
(* up to that size over the operators And/Or/Xor (binary and ternary),      *)
(* Not, ITE, Implies and the constants; -simulate samples deeper ones.      *)
(* The harness rebuilds each tree with sympy's own constructors (so the     *)
(* argument order / auto-simplification is the library's, not ours).        *)
(***************************************************************************)
EXTENDS Integers, Sequences, TLC, Json

CONSTANTS MaxTok, Syms, WithConst
VARIABLES stack, ntok

Leaf(s) == [op |-> "sym", n |-> s]
Top(k)  == stack[Len(stack) - k]             \* k = 0 is the top
Drop(k) == SubSeq(stack, 1, Len(stack) - k)

Push  == \E s \in Syms : stack' = Append(stack, Leaf(s))
PushC == WithConst /\ \E o \in {"true", "false"} : stack' = Append(stack, [op |-> o])
Un    == Len(stack) >= 1 /\ Top(0).op # "not"
         /\ stack' = Append(Drop(1), [op |-> "not", args |-> <<Top(0)>>])
Bin   == Len(stack) >= 2
         /\ \E o \in {"and", "or", "xor", "implies"} :
              stack' = Append(Drop(2), [op |-> o, args |-> <<Top(1), Top(0)>>])
Tern  == Len(stack) >= 3
         /\ \E o \in {"and", "or", "xor", "ite"} :
              stack' = Append(Drop(3), [op |-> o, args |-> <<Top(2), Top(1), Top(0)>>])

Init == stack = <<>> /\ ntok = 0
Next == /\ ntok < MaxTok
        /\ (Push \/ PushC \/ Un \/ Bin \/ Tern)
        /\ ntok' = ntok + 1
Spec == Init /\ [][Next]_<<stack, ntok>>

Emit == (Len(stack) = 1 /\ ntok >= 2) => PrintT(<<"E", ToJson(stack[1])>>)
Bound == Len(stack) <= 3
=============================================================================

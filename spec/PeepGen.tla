------------------------------- MODULE PeepGen -------------------------------
(***************************************************************************)
(* Generator specification for C14 (peephole cancellation): every initial   *)
(* state is one complete history                                            *)
(*   new(src) ; new(empty dst) ; append_circuit(dst, src, f1) ;             *)
(*   [barrier] ; append_circuit(dst, src, f2) ; remove_identities(dst)      *)
(* for every one- or two-gate source circuit of the table and EVERY pair of *)
(* qubit maps f1, f2.  append_circuit re-uses the operand's gate OBJECTS,   *)
(* so the two appended copies are "the same gate" for remove_identities,    *)
(* on the same qubits (must cancel when self-inverse), on the same qubits   *)
(* in another order (must not, unless the gate is symmetric), or elsewhere. *)
(* Same record formats as OpsGen.                                          *)
(***************************************************************************)
EXTENDS Integers, Sequences, FiniteSets, TLC, Json

VARIABLE h
G(cls, k, w, m) == [cls |-> cls, k |-> k, w |-> w, m |-> m]
BAR == G("Barrier", "BAR", <<>>, 0)
Table == << [nq |-> 2, gs |-> <<G("CX", "MCX", <<0, 1>>, 0)>>],
            [nq |-> 2, gs |-> <<G("CZ", "MCZ", <<0, 1>>, 0)>>],
            [nq |-> 2, gs |-> <<G("Swap", "SWAP", <<0, 1>>, 0)>>],
            [nq |-> 2, gs |-> <<G("CP", "MCP", <<0, 1>>, 4)>>],
            [nq |-> 2, gs |-> <<G("H", "H", <<0>>, 0), G("CX", "MCX", <<0, 1>>, 0)>>],
            [nq |-> 1, gs |-> <<G("T", "T", <<0>>, 0)>>],
            [nq |-> 1, gs |-> <<G("X", "X", <<0>>, 0)>>],
            [nq |-> 3, gs |-> <<G("CCX", "MCX", <<0, 1, 2>>, 0)>>] >>
Inj(n, m) == {f \in [1..n -> 0..(m - 1)] : \A a, b \in 1..n : a # b => f[a] # f[b]}
Hist(k, dn, f1, f2, bar) ==
  << [op |-> "new", nq |-> Table[k].nq, gates |-> Table[k].gs, enh |-> TRUE],
     [op |-> "new", nq |-> dn, gates |-> <<>>, enh |-> TRUE],
     [op |-> "append_circuit", dst |-> 1, src |-> 0, qubits |-> f1] >>
  \o (IF bar THEN << [op |-> "gate", dst |-> 1, g |-> BAR] >> ELSE <<>>)
  \o << [op |-> "append_circuit", dst |-> 1, src |-> 0, qubits |-> f2],
        [op |-> "rmid", a |-> 1] >>
Pool == UNION {UNION {{Hist(k, dn, f1, f2, bar) : f1, f2 \in Inj(Table[k].nq, dn), bar \in BOOLEAN}
                      : dn \in {x \in {2, 3} : x >= Table[k].nq}} : k \in DOMAIN Table}
Init == h \in Pool
Next == FALSE /\ h' = h
Spec == Init /\ [][Next]_h
Emit == PrintT(<<"O", ToJson(h)>>)
=============================================================================

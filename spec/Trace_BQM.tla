------------------------------ MODULE Trace_BQM ------------------------------
(***************************************************************************)
(* Refinement binding of qlasskit/bqm.py: one case = one recorded call of    *)
(* to_bqm (the same recordings C18 judges against the contract):            *)
(*   merged   the return definitions merge_expressions produced (recorded:  *)
(*            sympy's simplification is not modelled)                       *)
(*   tree     the tree of model building calls the library made             *)
(* The verdict says whether the tree is the one spec/BQM.tla predicts from   *)
(* the merged definitions, up to the order in which the operands of a chain *)
(* are folded.  A recording the model does not allow is DRIFT, reported in  *)
(* the evidence; it is never a verdict on the property.                     *)
(***************************************************************************)
EXTENDS BQM, TLC, Json, IOUtils

Cases == JsonDeserialize(IOEnv.CASES)
VARIABLE i

Verdict(c) ==
  LET m == Model([j \in 1..Len(c.merged) |-> c.merged[j][2]]) IN
  IF c.exc # "" THEN (IF HasErr(m) THEN "conform:raises-as-modelled" ELSE "drift:raised-where-the-model-builds-a-tree")
  ELSE IF HasErr(m) THEN "drift:built-a-tree-where-the-model-raises"
  ELSE IF Norm(c.tree) = Norm(m) THEN "conform" ELSE "drift:tree-differs"

Init == i = 1
Next == /\ i <= Len(Cases)
        /\ PrintT(<<"V", Cases[i].id, Verdict(Cases[i])>>)
        /\ i' = i + 1
Spec == Init /\ [][Next]_i
=============================================================================

----------------------------- MODULE Trace_Passes -----------------------------
(***************************************************************************)
(* The five AST passes of ast2ast() as state transformers: the reference    *)
(* meaning (PySem) of the function after each pass must equal the meaning   *)
(* of the source,  [][Meaning' = Meaning]_ast , on every input row.         *)
(* case: def0 (decorated source ast), fns, passes = << [name, def] >> (the  *)
(* ast recorded by the a2a.pass hook after each pass, decorated with the    *)
(* same argument / return types).                                           *)
(* Verdict: the first pass after which some row's determined bits differ    *)
(* (a localisation aid for C01: it is reported with a failing program, and  *)
(* counted in the evidence otherwise).                                      *)
(***************************************************************************)
EXTENDS PySem, Json, IOUtils

Cases == JsonDeserialize(IOEnv.CASES)
VARIABLE i
NoParams == [x \in {} |-> 0]
MinOf(S) == CHOOSE x \in S : \A y \in S : x <= y

Differs(a, b, T) ==
  /\ a.st = "ok" /\ b.st = "ok"
  /\ LET ea == Enc(T, Reduce(a))  eb == Enc(T, Reduce(b))  ma == DetMask(a)  mb == DetMask(b)
     IN \E k \in 1..Len(ea) : ma[k] /\ mb[k] /\ ea[k] # eb[k]

Verdict(c) ==
  LET U == 0..(P2(NumInputBits(c.def0)) - 1)
      ref == [r \in U |-> RunRow(c.def0, c.fns, r, NoParams)]
  IN IF \E r \in U : ref[r].st = "unmod" THEN <<"skip", "source-unmodelled", 0>>
     ELSE
     LET bad == {k \in 1..Len(c.passes) :
                   \E r \in U : LET x == RunRow(c.passes[k].def, c.fns, r, NoParams) IN
                                x.st # "unmod" /\ Differs(ref[r], x, c.def0.rdesc)}
         unm == {k \in 1..Len(c.passes) : RunRow(c.passes[k].def, c.fns, 0, NoParams).st = "unmod"}
     IN IF bad = {} THEN <<"ok", IF unm = {} THEN "" ELSE c.passes[MinOf(unm)].name \o ":unmodelled", Len(c.passes) - Cardinality(unm)>>
        ELSE <<"differs", c.passes[MinOf(bad)].name, MinOf(bad)>>

Init == i = 1
Next == /\ i <= Len(Cases)
        /\ PrintT(<<"V", Cases[i].id, Verdict(Cases[i])>>)
        /\ i' = i + 1
Spec == Init /\ [][Next]_i
=============================================================================

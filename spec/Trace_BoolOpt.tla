---------------------------- MODULE Trace_BoolOpt ----------------------------
(***************************************************************************)
(* Refinement binding of the boolean optimizer: one case = one recorded     *)
(* application  post = step(pre)  of the real library (the same recordings  *)
(* C04 judges against the contract).  The verdict says whether the          *)
(* recording is a behaviour of spec/BoolOpt.tla:                            *)
(*   pattern steps      every result expression is one of Vis(step, pre)    *)
(*   merge_expressions  MergeRel                                            *)
(*   apply_cse          CseRel                                              *)
(* A recording the model does not allow is DRIFT (the model no longer       *)
(* describes the code), reported in the evidence; it is never a verdict on  *)
(* the property.                                                           *)
(***************************************************************************)
EXTENDS BoolOpt, TLC, Json, IOUtils

Cases == JsonDeserialize(IOEnv.CASES)
VARIABLE i

Verdict(c) ==
  LET pre == CanonList(c.pre)
      post == CanonList(c.post)
      rets == {c.rets[k] : k \in DOMAIN c.rets}
  IN CASE c.step \in Steps -> StepRel(c.step, pre, post)
       [] c.step = "merge_expressions" -> MergeRel(pre, post, c.inputs, Rows(Len(c.inputs)), rets)
       [] c.step = "apply_cse" -> CseRel(pre, post)
       [] OTHER -> "not-modelled"

Init == i = 1
Next == /\ i <= Len(Cases)
        /\ PrintT(<<"V", Cases[i].id, Verdict(Cases[i])>>)
        /\ i' = i + 1
Spec == Init /\ [][Next]_i
=============================================================================

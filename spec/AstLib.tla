------------------------------- MODULE AstLib -------------------------------
(***************************************************************************)
(* Constructors for JSON ast nodes (PySem vocabulary) and type descriptors  *)
(* (Codec vocabulary), shared by the generator specifications.              *)
(***************************************************************************)
EXTENDS Integers, Sequences

TBool == [t |-> "bool"]
TInt(w) == [t |-> "int", w |-> w]
TFix(i, f) == [t |-> "fixed", i |-> i, f |-> f, w |-> i + f]
TTup(ts) == [t |-> "tuple", elts |-> ts]
TList(T, n) == [t |-> "tuple", elts |-> [j \in 1..n |-> T]]

\* ---- ast constructors (PySem vocabulary)
Name(id) == [T |-> "Name", id |-> id]
CI(v) == [T |-> "Constant", value |-> [T |-> "int", v |-> v]]
CB(b) == [T |-> "Constant", value |-> [T |-> "bool", v |-> b]]
CF(num, den) == [T |-> "Constant", value |-> [T |-> "float", num |-> num, den |-> den]]
Bin(op, l, r) == [T |-> "BinOp", left |-> l, op |-> [T |-> op], right |-> r]
Cmp(op, l, r) == [T |-> "Compare", left |-> l, ops |-> <<[T |-> op]>>, comparators |-> <<r>>]
BoolOpN(op, vs) == [T |-> "BoolOp", op |-> [T |-> op], values |-> vs]
Un(op, x) == [T |-> "UnaryOp", op |-> [T |-> op], operand |-> x]
IfE(c, a, b) == [T |-> "IfExp", test |-> c, body |-> a, orelse |-> b]
Sub(v, i) == [T |-> "Subscript", value |-> v, slice |-> i]
Call1(f, x) == [T |-> "Call", func |-> Name(f), args |-> <<x>>, keywords |-> <<>>]
Call2(f, x, y) == [T |-> "Call", func |-> Name(f), args |-> <<x, y>>, keywords |-> <<>>]
Assign(n, e) == [T |-> "Assign", targets |-> <<Name(n)>>, value |-> e]
Aug(n, op, e) == [T |-> "AugAssign", target |-> Name(n), op |-> [T |-> op], value |-> e]
Ret(e) == [T |-> "Return", value |-> e]


If(c, body, orelse) == [T |-> "If", test |-> c, body |-> body, orelse |-> orelse]
For(v, iter, body) == [T |-> "For", target |-> Name(v), iter |-> iter, body |-> body, orelse |-> <<>>]
Tup(es) == [T |-> "Tuple", elts |-> es]
Arg(n, d) == [T |-> "arg", arg |-> n, tdesc |-> d]
ArgT(n, d) == [T |-> "arg", arg |-> n, tdesc |-> d, spell |-> "Tuple"]   \* rendered as Tuple[...] even when homogeneous
ParamArg(n, d) == [T |-> "arg", arg |-> n, tdesc |-> d, param |-> TRUE]
FunDef(name, args, body, rd) == [T |-> "FunctionDef", name |-> name, args |-> [T |-> "arguments", args |-> args],
                                 body |-> body, rdesc |-> rd]
CallN(f, as) == [T |-> "Call", func |-> Name(f), args |-> as, keywords |-> <<>>]
=============================================================================

----------------------------- MODULE Trace_C04 -----------------------------
(***************************************************************************)
(* C04: every optimizer profile, and every single step of one, preserves    *)
(* the boolean function assigned to each return symbol.                     *)
(*                                                                         *)
(* One case = one recorded application  post = step(pre)  on the real       *)
(* library: fields inputs (names of the free input symbols), rets (the      *)
(* return symbols defined by pre), pre, post (expression lists), step.      *)
(* TLC evaluates both lists on ALL assignments of the inputs at once.       *)
(***************************************************************************)
EXTENDS BoolSem, TLC, Json, IOUtils

Cases == JsonDeserialize(IOEnv.CASES)
VARIABLE i

MinOf(S) == CHOOSE x \in S : \A y \in S : x <= y
FirstBad(names, P(_)) ==
  LET I == {j \in 1..Len(names) : P(names[j])} IN IF I = {} THEN "" ELSE names[MinOf(I)]

Verdict(c) ==
  LET U == Rows(Len(c.inputs))
      ubpre == Unbound(c.pre, c.inputs)
      ubpost == Unbound(c.post, c.inputs)
  IN
  IF ubpre # {} THEN <<"skip", "pre-list-not-closed", "", 0>>
  ELSE IF ubpost # {} THEN <<"fail", "free-symbol-introduced", CHOOSE s \in ubpost : TRUE, 0>>
  ELSE
  LET lost == FirstBad(c.rets, LAMBDA r : r \notin Defined(c.post)) IN
  IF lost # "" THEN <<"fail", "return-symbol-lost", lost, 0>>
  ELSE
  LET e1 == SemList(c.pre, c.inputs, U)
      e2 == SemList(c.post, c.inputs, U)
      bad == FirstBad(c.rets, LAMBDA r : e1[r] # e2[r])
  IN IF bad = "" THEN <<"ok", "", "", Cardinality(U)>>
     ELSE <<"fail", "return-symbol-meaning-changed", bad, MinOf(SD(e1[bad], e2[bad]))>>

Init == i = 1
Next == /\ i <= Len(Cases)
        /\ PrintT(<<"V", Cases[i].id, Verdict(Cases[i])>>)
        /\ i' = i + 1
Spec == Init /\ [][Next]_i
=============================================================================

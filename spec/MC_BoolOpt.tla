----------------------------- MODULE MC_BoolOpt -----------------------------
(***************************************************************************)
(* Model checking of BoolOpt.tla over the universe of ExprGen: every tree   *)
(* up to MaxTok tokens over And/Or/Xor (binary and ternary), Not, ITE,       *)
(* Implies and (WithConst) the constants is a state; BoolOptInv!RulesOKFor  *)
(* is evaluated on each complete tree.  Design-level counterpart of C04.    *)
(***************************************************************************)
EXTENDS ExprGen, BoolOptInv
RulesOK == (Len(stack) = 1 /\ ntok >= 2) => RulesOKFor(stack[1])
=============================================================================

------------------------------ MODULE Decompile ------------------------------
(***************************************************************************)
(* Refinement layer: the decompiler's section scanner, shaped like the loop *)
(* in Decompiler.decompile.  State: position i, the gates of the section    *)
(* under construction (cur), its start index, the sections found so far.    *)
(* One step per gate of  gates ++ <<sentinel>> :                            *)
(*   ScanClassical  a gate of ZB_GATES (I, X, CX, CCX, MCX): joins cur      *)
(*   ScanNop        a barrier: ignored                                      *)
(*   ScanFlush      another gate while cur is non-empty: the section        *)
(*                  [start, end) is reported, end = i, or i-1 when gate i-1 *)
(*                  is a barrier                                            *)
(*   ScanDrop       another gate while cur is empty                         *)
(* A gate is a record with field cls (the library class name).              *)
(***************************************************************************)
EXTENDS Integers, Sequences

ZB == {"I", "X", "CX", "CCX", "MCX"}
IsZB(g) == g.cls \in ZB
IsNopG(g) == g.cls = "Barrier"

ScanInit == [i |-> 0, cur |-> <<>>, start |-> -1, out |-> <<>>]
\* one step of the loop on the extended list ext (0-based position st.i)
ScanStep(ext, gates, st) ==
  LET g == ext[st.i + 1] IN
  IF g.cls # "Sentinel" /\ IsZB(g)
  THEN [st EXCEPT !.i = @ + 1, !.cur = Append(@, g), !.start = IF st.start = -1 THEN st.i ELSE st.start]       \* ScanClassical
  ELSE IF g.cls # "Sentinel" /\ IsNopG(g) THEN [st EXCEPT !.i = @ + 1]                                          \* ScanNop
  ELSE IF Len(st.cur) > 0
  THEN LET end == IF st.i >= 1 /\ IsNopG(gates[st.i]) THEN st.i - 1 ELSE st.i IN                                \* ScanFlush
       [i |-> st.i + 1, cur |-> <<>>, start |-> -1, out |-> Append(st.out, [s |-> st.start, e |-> end, n |-> Len(st.cur)])]
  ELSE [st EXCEPT !.i = @ + 1, !.cur = <<>>]                                                                     \* ScanDrop
RECURSIVE ScanFrom(_, _, _)
ScanFrom(ext, gates, st) == IF st.i >= Len(ext) THEN st ELSE ScanFrom(ext, gates, ScanStep(ext, gates, st))
Sections(gates) == ScanFrom(Append(gates, [cls |-> "Sentinel"]), gates, ScanInit).out
=============================================================================

------------------------------ MODULE Decompile ------------------------------
(***************************************************************************)
(* Refinement layer: the decompiler's section scanner, shaped like the loop *)
(* in Decompiler.decompile.  State: position i, the gates of the section    *)
(* under construction (cur), its start index, the sections found so far.    *)
(* One step per gate of  gates ++ <<sentinel>> :                            *)
(*   ScanClassical  a gate of ZB_GATES (I, X, CX, CCX, MCX): joins cur      *)
(*   ScanNop        a barrier: ignored                                      *)
(*   ScanFlush      another gate while cur is non-empty: the section        *)
(*                  [start, end) is reported, end = i, or i-1 when gate i-1 *)
(*                  is a barrier                                            *)
(*   ScanDrop       another gate while cur is empty                         *)
(* A gate is a record with field cls (the library class name).              *)
(***************************************************************************)
EXTENDS BoolOpt

ZB == {"I", "X", "CX", "CCX", "MCX"}
IsZB(g) == g.cls \in ZB
IsNopG(g) == g.cls = "Barrier"

ScanInit == [i |-> 0, cur |-> <<>>, start |-> -1, out |-> <<>>]
\* one step of the loop on the extended list ext (0-based position st.i)
ScanStep(ext, gates, st) ==
  LET g == ext[st.i + 1] IN
  IF g.cls # "Sentinel" /\ IsZB(g)
  THEN [st EXCEPT !.i = @ + 1, !.cur = Append(@, g), !.start = IF st.start = -1 THEN st.i ELSE st.start]       \* ScanClassical
  ELSE IF g.cls # "Sentinel" /\ IsNopG(g) THEN [st EXCEPT !.i = @ + 1]                                          \* ScanNop
  ELSE IF Len(st.cur) > 0
  THEN LET end == IF st.i >= 1 /\ IsNopG(gates[st.i]) THEN st.i - 1 ELSE st.i IN                                \* ScanFlush
       [i |-> st.i + 1, cur |-> <<>>, start |-> -1, out |-> Append(st.out, [s |-> st.start, e |-> end, n |-> Len(st.cur)])]
  ELSE [st EXCEPT !.i = @ + 1, !.cur = <<>>]                                                                     \* ScanDrop
RECURSIVE ScanFrom(_, _, _)
ScanFrom(ext, gates, st) == IF st.i >= Len(ext) THEN st ELSE ScanFrom(ext, gates, ScanStep(ext, gates, st))
Sections(gates) == ScanFrom(Append(gates, [cls |-> "Sentinel"]), gates, ScanInit).out

(***************************************************************************)
(* The symbolic execution of one section (Decompiler.__exps_of_section):    *)
(* every qubit a gate touches gets an entry (initially its own symbol), in  *)
(* first-touch order;  X negates,  a (multi-)controlled X xors the          *)
(* conjunction of the control expressions into the target;  the entries     *)
(* still equal to their own symbol are dropped at the end.  Expressions are *)
(* sympy-canonical N-forms (BoolOpt), so the result is compared             *)
(* structurally with the library's.  gs: gates with k (X / MCX / I / BAR)   *)
(* and w (0-based qubits); names[q + 1] = the symbol name of qubit q.       *)
(***************************************************************************)
SectionExprs(gs, names) ==
  LET Touch(order, e, w) ==       \* check_or_add: new qubits of w, in the order they appear
        LET RECURSIVE T(_, _, _)
            T(j, o, f) == IF j > Len(w) THEN <<o, f>>
                          ELSE IF w[j] \in DOMAIN f THEN T(j + 1, o, f)
                          ELSE T(j + 1, Append(o, w[j]), [q \in DOMAIN f \cup {w[j]} |-> IF q = w[j] THEN NSym(names[w[j] + 1]) ELSE f[q]])
        IN T(1, order, e)
      RECURSIVE F(_, _, _)
      F(j, order, e) ==
        IF j > Len(gs) THEN <<order, e>>
        ELSE LET g == gs[j]
                 t == Touch(order, e, g.w)
                 o == t[1]
                 f == t[2]
             IN IF g.k = "X" THEN F(j + 1, o, [f EXCEPT ![g.w[1]] = MkNot(f[g.w[1]])])
                ELSE IF g.k = "MCX" THEN
                     LET n == Len(g.w)
                         tgt == g.w[n]
                     IN F(j + 1, o, [f EXCEPT ![tgt] = MkXor(<<MkAnd({f[g.w[k]] : k \in 1..(n - 1)}), f[tgt]>>)])
                ELSE F(j + 1, o, f)                      \* identity / barrier: touched, unchanged
      r == F(1, <<>>, [q \in {} |-> NTrue])
      changed == SelectSeq(r[1], LAMBDA q : r[2][q] # NSym(names[q + 1]))
  IN [j \in 1..Len(changed) |-> <<names[changed[j] + 1], r[2][changed[j]]>>]
=============================================================================

---------------------------- MODULE Trace_Inline ----------------------------
(***************************************************************************)
(* Refinement binding of function calls: one case = one call expression     *)
(* g(actual, ...) translated by the REAL translate_expression in an          *)
(* environment where the real callee (its recorded expression list) was      *)
(* bound with the real bind_function.  Recorded: callee name, formals,       *)
(* callee expressions, number of return bits, the bit expressions of every   *)
(* actual argument (translated by the real code), and the result bits.       *)
(*   conform        Inline.tla predicts the result bit for bit (N-forms)     *)
(*   same-meaning   same functions of the caller's inputs                    *)
(*   drift:...      anything else (evidence, never a verdict)                *)
(***************************************************************************)
EXTENDS Inline, TLC, Json, IOUtils

Cases == JsonDeserialize(IOEnv.CASES)
VARIABLE i

Verdict(c) ==
  LET cex == [k \in DOMAIN c.cexprs |-> <<c.cexprs[k][1], CanonE(c.cexprs[k][2])>>]
      def == BindFunction(c.name, c.formals, cex, c.nret)
      acts == [a \in DOMAIN c.actuals |-> [j \in DOMAIN c.actuals[a] |-> CanonE(c.actuals[a][j])]]
      real == [k \in DOMAIN c.result |-> CanonE(c.result[k])]
  IN IF c.exc # "" THEN (IF ArityOK(def, acts) THEN "drift:real-raised" ELSE "conform")
     ELSE IF ~ArityOK(def, acts) THEN "drift:model-rejects"
     ELSE LET pred == Call(def, acts)
              U == Rows(Len(c.inputs))
              env == InputEnv(c.inputs, U)
          IN IF pred = real THEN "conform"
             ELSE IF Len(pred) = Len(real) /\ \A k \in DOMAIN real : FreeN(real[k]) \cup FreeN(pred[k]) \subseteq DOMAIN env
                                                                    /\ SemN(real[k], env, U) = SemN(pred[k], env, U) THEN "same-meaning"
             ELSE "drift:result-differs"

Init == i = 1
Next == /\ i <= Len(Cases)
        /\ PrintT(<<"V", Cases[i].id, Verdict(Cases[i])>>)
        /\ i' = i + 1
Spec == Init /\ [][Next]_i
=============================================================================

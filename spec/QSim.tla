-------------------------------- MODULE QSim --------------------------------
(***************************************************************************)
(* Contract layer: EXACT state-vector simulation of the library's gate set. *)
(*                                                                         *)
(* A state is [amp |-> f, k |-> n]: f maps basis indices (naturals, bit q   *)
(* of the index = qubit q) in its support to amplitudes, the whole vector   *)
(* being scaled by 2^(-n/2).  Amplitudes live in one of two rings:          *)
(*   R = "Z": integers (enough for H, X, Z, CZ/MCZ, MCX, SWAP circuits:     *)
(*            Grover, Deutsch-Jozsa, Bernstein-Vazirani, Simon)             *)
(*   R = "C": Z[zeta], zeta = exp(i*pi/8), as 8-tuples of integers          *)
(*            <<c0..c7>> = sum c_j zeta^j  (zeta^8 = -1): S, T, Y, P/CP     *)
(*            with phases that are multiples of 2*pi/16 (QFT on <= 4 qubits) *)
(* A gate is [k |-> kind, w |-> qubits, m |-> phase multiple of 2*pi/16].   *)
(* Kinds: H X Y Z S T P  MCX MCZ MCP (controls first, target last)  SWAP    *)
(*        I BAR (no-ops).  Anything else is "opaque": RunQ reports it.      *)
(***************************************************************************)
EXTENDS Integers, Sequences, FiniteSets

Q2(n) == 2^n
QBit(b, q) == (b \div Q2(q)) % 2 = 1
QFlip(b, q) == IF QBit(b, q) THEN b - Q2(q) ELSE b + Q2(q)
QAll(b, qs) == \A j \in 1..Len(qs) : QBit(b, qs[j])

\* ---------------------------------------------------------------- amplitude rings
Z8 == <<0, 0, 0, 0, 0, 0, 0, 0>>
AZero(R) == IF R = "Z" THEN 0 ELSE Z8
AOne(R)  == IF R = "Z" THEN 1 ELSE <<1, 0, 0, 0, 0, 0, 0, 0>>
AAdd(R, a, b) == IF R = "Z" THEN a + b ELSE [j \in 1..8 |-> a[j] + b[j]]
ASub(R, a, b) == IF R = "Z" THEN a - b ELSE [j \in 1..8 |-> a[j] - b[j]]
AIsZero(R, a) == IF R = "Z" THEN a = 0 ELSE a = Z8
\* multiply by zeta^m (m mod 16)
AZeta(R, a, m) ==
  LET mm == m % 16 IN
  IF R = "Z" THEN (IF mm = 0 THEN a ELSE IF mm = 8 THEN -a ELSE a)      \* callers never use other m in ring Z
  ELSE [j \in 1..8 |-> LET src == (j - 1 - mm) % 16            \* exponent whose coefficient lands on j-1
                       IN IF src < 8 THEN a[src + 1] ELSE -a[src - 8 + 1]]
AEven(R, a) == IF R = "Z" THEN a % 2 = 0 ELSE \A j \in 1..8 : a[j] % 2 = 0
AHalf(R, a) == IF R = "Z" THEN a \div 2 ELSE [j \in 1..8 |-> a[j] \div 2]
\* a * sqrt2,  sqrt2 = zeta^2 - zeta^6 = zeta^2 + zeta^14
ASqrt2(a) == AAdd("C", AZeta("C", a, 2), AZeta("C", a, 14))

Amp(R, s, b) == IF b \in DOMAIN s.amp THEN s.amp[b] ELSE AZero(R)
Prune(R, f) == LET D == {b \in DOMAIN f : ~AIsZero(R, f[b])} IN [b \in D |-> f[b]]

\* canonical scale: divide out common factors of sqrt2 (ring C) / 2 (ring Z)
RECURSIVE Canon(_, _)
Canon(R, s) ==
  IF R = "Z"
  THEN IF s.k >= 2 /\ \A b \in DOMAIN s.amp : AEven(R, s.amp[b])
       THEN Canon(R, [amp |-> [b \in DOMAIN s.amp |-> AHalf(R, s.amp[b])], k |-> s.k - 2]) ELSE s
  ELSE IF s.k >= 1 /\ \A b \in DOMAIN s.amp : AEven(R, ASqrt2(s.amp[b]))
       THEN Canon(R, [amp |-> [b \in DOMAIN s.amp |-> AHalf(R, ASqrt2(s.amp[b]))], k |-> s.k - 1]) ELSE s

BasisState(R, b) == [amp |-> [x \in {b} |-> AOne(R)], k |-> 0]

\* ---------------------------------------------------------------- gates
QCtrl(w) == SubSeq(w, 1, Len(w) - 1)
QTgt(w) == w[Len(w)]

Relabel(s, F(_)) ==     \* permutation of basis states
  LET D == {F(b) : b \in DOMAIN s.amp}
      Inv(c) == CHOOSE b \in DOMAIN s.amp : F(b) = c
  IN [s EXCEPT !.amp = [c \in D |-> s.amp[Inv(c)]]]

Phase(R, s, qs, m) == [s EXCEPT !.amp = [b \in DOMAIN s.amp |-> IF QAll(b, qs) THEN AZeta(R, s.amp[b], m) ELSE s.amp[b]]]

ApplyH(R, s, q) ==
  LET D == DOMAIN s.amp \cup {QFlip(b, q) : b \in DOMAIN s.amp}
      f == [b \in D |-> IF QBit(b, q) THEN ASub(R, Amp(R, s, QFlip(b, q)), Amp(R, s, b))
                                      ELSE AAdd(R, Amp(R, s, b), Amp(R, s, QFlip(b, q)))]
  IN Canon(R, [amp |-> Prune(R, f), k |-> s.k + 1])

\* "ORA" is not a library gate: the abstract xor-oracle |x>|r> -> |x>|r xor [x in sol]> used by the
\* reference constructions in Algo.tla: w = <<register qubits..., r>>, sol = set of register values
KnownKinds == {"H", "X", "Y", "Z", "S", "T", "P", "MCX", "MCZ", "MCP", "SWAP", "I", "BAR", "ORA"}
RealKinds == {"H", "X", "Z", "MCX", "MCZ", "SWAP", "I", "BAR", "ORA"}
IsOpaque(g) == g.k \notin KnownKinds \/ (g.k \in {"P", "MCP"} /\ g.m < 0)
NeedsC(gates) == \E j \in 1..Len(gates) : gates[j].k \notin RealKinds
RingFor(gates) == IF NeedsC(gates) THEN "C" ELSE "Z"

ApplyQ(R, s, g) ==
  CASE g.k = "H" -> ApplyH(R, s, g.w[1])
    [] g.k = "X" -> Relabel(s, LAMBDA b : QFlip(b, g.w[1]))
    [] g.k = "MCX" -> Relabel(s, LAMBDA b : IF QAll(b, QCtrl(g.w)) THEN QFlip(b, QTgt(g.w)) ELSE b)
    [] g.k = "Z" -> Phase(R, s, g.w, 8)
    [] g.k = "MCZ" -> Phase(R, s, g.w, 8)
    [] g.k = "S" -> Phase(R, s, g.w, 4)
    [] g.k = "T" -> Phase(R, s, g.w, 2)
    [] g.k \in {"P", "MCP"} -> Phase(R, s, g.w, g.m)
    [] g.k = "Y" -> LET s1 == [s EXCEPT !.amp = [b \in DOMAIN s.amp |-> AZeta(R, s.amp[b], IF QBit(b, g.w[1]) THEN 12 ELSE 4)]]
                    IN Relabel(s1, LAMBDA b : QFlip(b, g.w[1]))
    [] g.k = "SWAP" -> Relabel(s, LAMBDA b : IF QBit(b, g.w[1]) = QBit(b, g.w[2]) THEN b ELSE QFlip(QFlip(b, g.w[1]), g.w[2]))
    [] g.k \in {"I", "BAR"} -> s
    [] g.k = "ORA" -> LET reg == QCtrl(g.w)
                          Val(b) == LET RECURSIVE F(_) F(j) == IF j > Len(reg) THEN 0 ELSE (IF QBit(b, reg[j]) THEN Q2(j - 1) ELSE 0) + F(j + 1) IN F(1)
                      IN Relabel(s, LAMBDA b : IF Val(b) \in g.sol THEN QFlip(b, QTgt(g.w)) ELSE b)

RECURSIVE RunQFrom(_, _, _, _)
RunQFrom(R, gates, j, s) == IF j > Len(gates) THEN s ELSE RunQFrom(R, gates, j + 1, ApplyQ(R, s, gates[j]))
RunQ(R, gates, s) == Canon(R, RunQFrom(R, gates, 1, s))

AnyOpaque(gates) == \E j \in 1..Len(gates) : IsOpaque(gates[j])

\* the two gate lists act identically on every basis state of nq qubits (exact, incl. global phase)
SameUnitary(g1, g2, nq) ==
  LET R == IF NeedsC(g1) \/ NeedsC(g2) THEN "C" ELSE "Z" IN
  \A b \in 0..(Q2(nq) - 1) : RunQ(R, g1, BasisState(R, b)) = RunQ(R, g2, BasisState(R, b))
\* first basis state on which they differ, or -1
FirstDiff(g1, g2, nq) ==
  LET R == IF NeedsC(g1) \/ NeedsC(g2) THEN "C" ELSE "Z"
      D == {b \in 0..(Q2(nq) - 1) : RunQ(R, g1, BasisState(R, b)) # RunQ(R, g2, BasisState(R, b))}
  IN IF D = {} THEN -1 ELSE CHOOSE b \in D : \A c \in D : b <= c

(***************************************************************************)
(* Big naturals (TLC integers are 32 bit): little-endian base-1024 digits.  *)
(***************************************************************************)
BB == 1024
RECURSIVE BNorm(_, _)
BNorm(ds, carry) ==      \* propagate carries; ds may hold digits up to 2^30
  IF ds = <<>> THEN (IF carry = 0 THEN <<>> ELSE <<carry % BB>> \o BNorm(<<>>, carry \div BB))
  ELSE LET t == ds[1] + carry IN <<t % BB>> \o BNorm(Tail(ds), t \div BB)
RECURSIVE BTrim(_)
BTrim(ds) == IF ds # <<>> /\ ds[Len(ds)] = 0 THEN BTrim(SubSeq(ds, 1, Len(ds) - 1)) ELSE ds
BFromSquare(a) ==        \* a^2 for |a| < 2^20
  LET x == IF a < 0 THEN -a ELSE a  hi == x \div BB  lo == x % BB
  IN BTrim(BNorm(<<lo * lo, 2 * hi * lo, hi * hi>>, 0))
BAdd(a, b) ==
  LET n == IF Len(a) > Len(b) THEN Len(a) ELSE Len(b)
      d(s, j) == IF j <= Len(s) THEN s[j] ELSE 0
  IN BTrim(BNorm([j \in 1..n |-> d(a, j) + d(b, j)], 0))
BZero == <<>>
RECURSIVE BShl(_, _)
BShl(a, bits) ==         \* a * 2^bits
  IF bits >= 10 THEN BShl(<<0>> \o a, bits - 10)
  ELSE BTrim(BNorm([j \in 1..Len(a) |-> a[j] * Q2(bits)], 0))
RECURSIVE BLessFrom(_, _, _)
BLessFrom(a, b, j) == IF j = 0 THEN FALSE ELSE IF a[j] # b[j] THEN a[j] < b[j] ELSE BLessFrom(a, b, j - 1)
BLess(a, b) == IF Len(a) # Len(b) THEN Len(a) < Len(b) ELSE BLessFrom(a, b, Len(a))

\* probability numerators of a ring-Z state, marginalised on the qubits `reg` (a sequence of qubit
\* indices; value = sum bit(reg[j]) 2^(j-1)); probabilities are numerator / 2^k
RegVal(b, reg) == LET RECURSIVE F(_) F(j) == IF j > Len(reg) THEN 0 ELSE (IF QBit(b, reg[j]) THEN Q2(j - 1) ELSE 0) + F(j + 1) IN F(1)
RECURSIVE BSumSq(_, _)
BSumSq(s, B) == IF B = {} THEN BZero ELSE LET b == CHOOSE b \in B : TRUE IN BAdd(BFromSquare(s.amp[b]), BSumSq(s, B \ {b}))
Marginal(s, reg) == [v \in 0..(Q2(Len(reg)) - 1) |-> BSumSq(s, {b \in DOMAIN s.amp : RegVal(b, reg) = v})]
=============================================================================

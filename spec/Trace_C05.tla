----------------------------- MODULE Trace_C05 -----------------------------
(***************************************************************************)
(* C05: values survive  encode_input -> circuit -> read outputs -> decode.  *)
(*                                                                         *)
(* case fields: def/fns/params (program, as Trace_C01), argT (type          *)
(*   descriptor per argument), exprs/rets (for the shared-qubit clause),    *)
(*   gates, nq, inq / outq (reported input / output qubit lists), outq_exc  *)
(*   (exception text if observing output_qubits raised),                    *)
(*   enc = << <<values, string>> >>  for EVERY argument valuation: the       *)
(*         values handed to encode_input (Codec value domain) and the       *)
(*         returned string (sequence of 0/1),                               *)
(*   dec = << value >> the result of decode_output for EVERY reading, entry *)
(*         p+1 for the reading whose bit k (k-th reported output qubit) is  *)
(*         bit k of p; -1 where decode_output raised,                       *)
(*   cin / cout: a synthetic counts dictionary and decode_counts of it.     *)
(***************************************************************************)
EXTENDS PySem, Circuit, Json, IOUtils

Cases == JsonDeserialize(IOEnv.CASES)
VARIABLE i

MinOf(S) == CHOOSE x \in S : \A y \in S : x <= y

RECURSIVE ConcatEnc(_, _, _)
ConcatEnc(Ts, vals, j) == IF j > Len(Ts) THEN <<>> ELSE Enc(Ts[j], vals[j]) \o ConcatEnc(Ts, vals, j + 1)

RECURSIVE ReduceAll(_)
ReduceAll(x) == IF x.t.t = "tuple" THEN [x EXCEPT !.v = [j \in 1..Len(x.v) |-> ReduceAll(x.v[j])]]
                ELSE IF x.t.t = "bool" THEN x ELSE [x EXCEPT !.v = x.v % P2(x.t.w)]

OneVal2(c, e) ==
  LET vals == e[1]
      str  == e[2]
      bits == ConcatEnc(c.argT, vals, 1)
      n    == Len(bits)
      r    == PatOf(bits)
  IN
  IF str # BitsToReading(bits) THEN <<"encode_input-string", r>>
  ELSE
  LET init == [q \in 1..c.nq |-> IF \E k \in 1..Len(c.inq) : c.inq[k] = q - 1 /\ str[n + 1 - k] = 1 THEN {0} ELSE {}]
      fin  == Run(c.gates, init, {0})
      rd   == [k \in 1..Len(c.outq) |-> fin[c.outq[k] + 1] # {}]
      \* wide return types: the decode table is not logged (2^w entries); the reading is decoded with Codec
      \* (decode_output itself is covered exhaustively per type by C09)
      got  == IF Len(c.dec) = 0 THEN Dec(c.def.rdesc, rd) ELSE c.dec[PatOf(rd) + 1]
      x    == RunRow(c.def, c.fns, r, c.params)
  IN IF x.st = "unmod" THEN <<"unmod", r>>
     ELSE IF x.st = "undef" THEN <<"skip", r>>
     ELSE IF \E b \in 1..Len(DetMask(x)) : ~DetMask(x)[b] THEN <<"skip", r>>
     ELSE IF got = FromVal(ReduceAll(x)) THEN <<"ok", r>>
     ELSE <<"decoded-value-differs", r>>

Verdict(c) ==
  LET nin == NumInputBits(c.def) IN
  IF c.outq_exc # "" THEN <<"fail", "output_qubits-raised", 0, 0>>
  ELSE IF c.inq # [k \in 1..nin |-> k - 1] THEN <<"fail", "input_qubits-not-argument-bit-order", 0, 0>>
  ELSE IF \E k \in 1..Len(c.outq) : c.outq[k] < 0 \/ c.outq[k] >= c.nq THEN <<"fail", "output-qubit-out-of-range", 0, 0>>
  ELSE IF Len(c.outq) # Width(c.def.rdesc) THEN <<"fail", "output-qubit-count", Len(c.outq), Width(c.def.rdesc)>>
  ELSE IF ~WellFormed(c.gates, c.nq) \/ ~AllClassical(c.gates) THEN <<"skip", "gates", 0, 0>>
  ELSE
  LET U == Rows(nin)
      live == Live(c.exprs, {c.rets[b] : b \in 1..Len(c.rets)})
      shared == {p \in (1..Len(c.outq)) \X (1..Len(c.outq)) : p[1] < p[2] /\ c.outq[p[1]] = c.outq[p[2]]}
  IN
  IF shared # {} /\ Unbound(live, c.inputs) = {} /\
     (LET env == SemList(live, c.inputs, U) IN \E p \in shared : env[c.rets[p[1]]] # env[c.rets[p[2]]])
  THEN <<"fail", "two-different-output-bits-share-a-qubit", 0, 0>>
  ELSE
  LET res == {OneVal2(c, c.enc[k]) : k \in 1..Len(c.enc)}
      bad == {p \in res : p[1] \notin {"ok", "skip", "unmod"}}
      unm == {p \in res : p[1] = "unmod"}
      nok == Cardinality({p \in res : p[1] = "ok"})
  IN IF unm # {} THEN <<"skip", "unmodelled", 0, 0>>
     ELSE IF bad # {} THEN LET r0 == MinOf({p[2] : p \in bad}) IN
                           <<"fail", (CHOOSE p \in bad : p[2] = r0)[1], r0, Cardinality(bad)>>
     ELSE IF Len(c.enc) # Cardinality(U) THEN <<"fail", "not-all-valuations-logged", Len(c.enc), Cardinality(U)>>
     ELSE \* decode_counts agrees with per-key decode_output
          IF Len(c.dec) = 0 THEN <<"ok", "", nok, Len(c.enc)>> ELSE
          LET vals == {c.dec[c.cin[k][1] + 1] : k \in 1..Len(c.cin)}
              Tot(v) == LET RECURSIVE F(_) F(k) == IF k > Len(c.cin) THEN 0
                                                    ELSE (IF c.dec[c.cin[k][1] + 1] = v THEN c.cin[k][2] ELSE 0) + F(k + 1)
                        IN F(1)
              okc == /\ Len(c.cout) = Cardinality(vals)
                     /\ \A k \in 1..Len(c.cout) : c.cout[k][1] \in vals /\ c.cout[k][2] = Tot(c.cout[k][1])
          IN IF okc THEN <<"ok", "", nok, Len(c.enc)>> ELSE <<"fail", "decode_counts-disagrees-with-decode_output", 0, 0>>

Init == i = 1
Next == /\ i <= Len(Cases)
        /\ PrintT(<<"V", Cases[i].id, Verdict(Cases[i])>>)
        /\ i' = i + 1
Spec == Init /\ [][Next]_i
=============================================================================

----------------------------- MODULE Trace_C09 -----------------------------
(***************************************************************************)
(* C09: type codecs are exact and mutually inverse.  The harness calls the  *)
(* real codec entry points for EVERY bit pattern of every shipped type and  *)
(* logs what they returned; TLC compares each logged field with Codec.      *)
(*                                                                         *)
(* kind "type":  T, rows = << <<p, val, tb, tbin, fb, cst, hot, nnz>>, .. >>  *)
(*   p    bit pattern (bit k of p = element k of the bool list given to     *)
(*        from_bool)                                                        *)
(*   val  value returned by from_bool (scaled for fixed, code point for     *)
(*        char), -1 if it raised                                            *)
(*   tb   to_bool() of that value, packed; tbin  to_bin() packed (char k)   *)
(*   fb   value of from_bin(to_bin())                                       *)
(*   cst  bits of T.const(value), packed                                    *)
(*   hot  index of the maximal amplitude; nnz number of non-zero amplitudes *)
(* kind "nested": T (tuple type), rows = << <<p, value>> >>: value decoded  *)
(*   by the library from the measured string whose bit k is bit k of p      *)
(* kind "intlit": rows = << <<v, width, bits>> >>  (const_to_qtype(v))       *)
(* kind "fixlit": rows = << <<num16, i, f, bits>> >> literal num16/16        *)
(* kind "charlit": rows = << <<code, bits>> >>                               *)
(***************************************************************************)
EXTENDS Codec, TLC, Json, IOUtils

Cases == JsonDeserialize(IOEnv.CASES)
VARIABLE i

Abs(x) == IF x < 0 THEN -x ELSE x

Cl(cond, name) == IF cond THEN {} ELSE {name}

RowType(T, r) ==
  LET p == r[1] w == Width(T) bits == BitsOf(p, w) v == Dec(T, bits) IN
       Cl(r[2] = v, "decoded-value")
  \cup Cl(r[3] = p, "reencode-differs")
  \cup Cl(r[4] = p, "to_bin-differs")
  \cup Cl(r[5] = r[2], "from_bin-value")
  \cup Cl(r[6] = r[3], "const-vs-runtime-encoding")
  \cup Cl(r[8] = -2 \/ r[8] = 1, "amplitudes-not-one-hot")        \* -2: vector not logged for this row
  \cup Cl(r[8] = -2 \/ r[7] = AmpIndex(BitsOf(r[3], w)), "amplitude-index")

RowNested(T, r) == Cl(r[2] = Dec(T, BitsOf(r[1], Width(T))), "nested-decode")

RowIntLit(r) == Cl(r[2] = ConstWidth(r[1]), "literal-type") \cup Cl(r[3] = r[1], "literal-bits")

RowFixLit(r) ==   \* |decoded - literal| < 0.05, in sixteenths scaled by 2^f:  decoded = d / 2^f
  LET T == [t |-> "fixed", i |-> r[2], f |-> r[3], w |-> r[2] + r[3]]
      d == Dec(T, BitsOf(r[4], T.w))
  IN Cl(20 * Abs(d * 16 - r[1] * P2(T.f)) < 16 * P2(T.f), "float-literal-tolerance")

RowCharLit(r) == Cl(r[2] = r[1], "char-literal-bits")

Row(c, r) ==
  CASE c.kind = "type" -> RowType(c.T, r)
    [] c.kind = "nested" -> RowNested(c.T, r)
    [] c.kind = "intlit" -> RowIntLit(r)
    [] c.kind = "fixlit" -> RowFixLit(r)
    [] c.kind = "charlit" -> RowCharLit(r)

\* verdict: the set of <<clause, set of failing patterns>>
Verdict(c) ==
  LET res == [k \in 1..Len(c.rows) |-> Row(c, c.rows[k])]
      failing == UNION {res[k] : k \in 1..Len(c.rows)}
  IN <<IF failing = {} THEN "ok" ELSE "fail", Len(c.rows),
       {<<cl, {c.rows[k][1] : k \in {j \in 1..Len(c.rows) : cl \in res[j]}}>> : cl \in failing}>>

Init == i = 1
Next == /\ i <= Len(Cases)
        /\ PrintT(<<"V", Cases[i].id, Verdict(Cases[i])>>)
        /\ i' = i + 1
Spec == Init /\ [][Next]_i
=============================================================================

------------------------------ MODULE Trace_C10 ------------------------------
(***************************************************************************)
(* C10: recorded API histories against the Session contract.                *)
(* case: steps = << [op, res, exc, alone, alone_exc, before, after] >>       *)
(*   res / alone   fingerprint of the step's result in the history / of the *)
(*                 same term evaluated alone in a fresh interpreter ("" if  *)
(*                 it raised), exc / alone_exc the exception class names    *)
(*   before/after  fingerprints of all objects alive before the step, taken *)
(*                 before and after it (same order)                         *)
(* Fingerprints are digests of the serialised observable state (name,       *)
(* arguments, return, expressions, gate list, qubit map, qubit lists, ast   *)
(* dump, exported text ...): equality of digests = equality of that state.  *)
(***************************************************************************)
EXTENDS Integers, Sequences, FiniteSets, TLC, Json, IOUtils

Cases == JsonDeserialize(IOEnv.CASES)
VARIABLE i

MinOf(S) == CHOOSE x \in S : \A y \in S : x <= y

StepOK(s) ==
  IF Len(s.before) # Len(s.after) THEN "live-pool-changed"
  ELSE IF \E k \in 1..Len(s.before) : s.before[k] # s.after[k] THEN "live-object-modified"
  ELSE IF (s.exc = "") # (s.alone_exc = "") THEN (IF s.exc # "" THEN "raises-only-after-this-history" ELSE "raises-only-alone")
  ELSE IF s.exc = "" /\ s.res # s.alone THEN "result-depends-on-history"
  ELSE "ok"

Verdict(c) ==
  LET bad == {k \in 1..Len(c.steps) : StepOK(c.steps[k]) # "ok"} IN
  IF bad = {} THEN <<"ok", "", Len(c.steps), 0>>
  ELSE LET k == MinOf(bad) s == c.steps[k] IN
       <<"fail", StepOK(s), k - 1,
         IF StepOK(s) = "live-object-modified" THEN MinOf({j \in 1..Len(s.before) : s.before[j] # s.after[j]}) - 1 ELSE -1>>

Init == i = 1
Next == /\ i <= Len(Cases)
        /\ PrintT(<<"V", Cases[i].id, Verdict(Cases[i])>>)
        /\ i' = i + 1
Spec == Init /\ [][Next]_i
=============================================================================

--------------------------- MODULE Trace_AstPasses ---------------------------
(***************************************************************************)
(* Refinement binding of the transcribed ast2ast passes (spec/AstPasses):   *)
(* one case = the asts recorded after each pass of one real translation     *)
(* (hook a2a.pass; the same recordings Trace_Passes judges for meaning).    *)
(* The body recorded after ReplaceMultiTargetAssign must be Rmta of the     *)
(* body recorded after the pass before it.  A difference is DRIFT, reported *)
(* in the evidence, never a verdict on the property.                        *)
(***************************************************************************)
EXTENDS AstPasses, TLC, Json, IOUtils

Cases == JsonDeserialize(IOEnv.CASES)
VARIABLE i

Idx(c, name) == {k \in 1..Len(c.passes) : c.passes[k].name = name}
Verdict(c) ==
  IF Idx(c, "ReplaceMultiTargetAssign") = {} \/ Idx(c, "ReplaceTypeAnn") = {} THEN "n/a:pass-not-recorded"
  ELSE LET pre == c.passes[CHOOSE k \in Idx(c, "ReplaceTypeAnn") : TRUE].def.body
           post == c.passes[CHOOSE k \in Idx(c, "ReplaceMultiTargetAssign") : TRUE].def.body
       IN IF RmtaStmts(pre) = post THEN (IF HasMulti(pre) THEN "conform" ELSE "conform:nothing-to-rewrite")
          ELSE "drift:ReplaceMultiTargetAssign"

Init == i = 1
Next == /\ i <= Len(Cases)
        /\ PrintT(<<"V", Cases[i].id, Verdict(Cases[i])>>)
        /\ i' = i + 1
Spec == Init /\ [][Next]_i
=============================================================================

------------------------------- MODULE Synth -------------------------------
(***************************************************************************)
(* Refinement layer: the synthesis machine, shaped like the code.           *)
(*                                                                         *)
(*   QCircuitEnhanced  -> the machine record m (nq, gates, gcomp, anc,      *)
(*                        free, marked, qmap) and AddQubit / NewGate /      *)
(*                        ReGate / GetFree / Mark / Uncompute /            *)
(*                        UncomputeAll / MapQubit / RemoveIdentities        *)
(*   ExpQMap           -> m.emap with EMapSet (evicts by qubit) / EMapRemove *)
(*                        / EMapRemoveSymbol                                *)
(*   InternalCompiler  -> CExpr (CConst, CSym, CXor + XorInto, CNot, CAnd,  *)
(*                        COr), CompileOne = steps 2.1-2.3 of compile(),    *)
(*                        Compile = the whole of compile()                  *)
(* The model transcribes what the code DOES (including what is known to be  *)
(* unsound in its uncomputation scheme), so that its prediction can be      *)
(* compared gate for gate with a recorded compile.  Python sets are modelled *)
(* as sets; the two places where the code depends on set iteration order    *)
(* (free_ancilla_lst.pop(), list(set(operands))) read the recorded choice   *)
(* from m.ev (the hook events) and flag a choice that is not possible.      *)
(* Ghost state: m.val[q+1] = the set of input rows on which qubit q is 1,   *)
(* updated by gates only, so that invariants can be evaluated on any m.     *)
(* A gate is [id, w]: w = controls then target (all gates here are X/MCX);  *)
(* id models object identity, which remove_identities and uncompute keep.   *)
(***************************************************************************)
EXTENDS BoolSem, FiniteSetsExt, SequencesExt

SetMax(S) == CHOOSE x \in S : \A y \in S : y <= x
SetMin(S) == CHOOSE x \in S : \A y \in S : x <= y

\* policy: "rec" = choices are read from the recorded events m.ev; "min" / "max" = the smallest / largest
\* free ancilla is handed out and operand sets are iterated in ascending / descending order (model checking)
M0(U, ev, inputs, rets, temps) ==
   [policy |-> "rec", nq |-> 0, gates |-> <<>>, gcomp |-> <<>>, anc |-> {}, free |-> {}, marked |-> {}, qmap |-> <<>>,
    emap |-> {}, val |-> <<>>, gid |-> 0, ev |-> ev, ci |-> 1, U |-> U,
    inputs |-> inputs, rets |-> rets, temps |-> temps, err |-> "", flags |-> {}, recycled |-> {}, cqF |-> -1, cqT |-> -1]

Err(m, e) == IF m.err = "" THEN [m EXCEPT !.err = e] ELSE m

\* ---- qubit_map: insertion-ordered <<name, index>> pairs
QHas(m, n) == \E i \in 1..Len(m.qmap) : m.qmap[i][1] = n
QGet(m, n) == IF QHas(m, n) THEN m.qmap[CHOOSE i \in 1..Len(m.qmap) : m.qmap[i][1] = n][2] ELSE -7
QSet(m, n, q) == IF QHas(m, n)
                 THEN [m EXCEPT !.qmap = [i \in 1..Len(m.qmap) |-> IF m.qmap[i][1] = n THEN <<n, q>> ELSE m.qmap[i]]]
                 ELSE [m EXCEPT !.qmap = Append(m.qmap, <<n, q>>)]
QDel(m, n) == [m EXCEPT !.qmap = SelectSeq(m.qmap, LAMBDA p : p[1] # n)]
HasKeyByIndex(m, q) == \E i \in 1..Len(m.qmap) : m.qmap[i][2] = q
KeyByIndex(m, q) == m.qmap[SetMax({i \in 1..Len(m.qmap) : m.qmap[i][2] = q})][1]      \* the LAST name bound to q

AddQubit(m, name, rows) == LET m1 == QSet(m, name, m.nq) IN [m1 EXCEPT !.nq = m.nq + 1, !.val = Append(m.val, rows)]
\* add_ancilla(): the first anc_<n>, n >= len(ancilla_lst), that names no qubit yet (an argument or a variable may be
\* called anc_<n>); the shared constant qubits get a name that is new in the circuit and are remembered by index
AncName(m) == LET RECURSIVE F(_) F(n) == IF QHas(m, "anc_" \o ToString(n)) THEN F(n + 1) ELSE "anc_" \o ToString(n) IN F(Cardinality(m.anc))
RECURSIVE FreshName(_, _)
FreshName(m, n) == IF QHas(m, n) THEN FreshName(m, n \o "_") ELSE n

\* ---- gates
GCtrl(w) == SubSeq(w, 1, Len(w) - 1)
GTgt(w) == w[Len(w)]
Effect(m, w) ==
   LET c == GCtrl(w)
       RECURSIVE F(_) F(j) == IF j > Len(c) THEN m.U ELSE m.val[c[j] + 1] \cap F(j + 1)
   IN [m.val EXCEPT ![GTgt(w) + 1] = SD(m.val[GTgt(w) + 1], F(1))]
WfGate(m, w) == /\ \A j \in 1..Len(w) : w[j] >= 0 /\ w[j] < m.nq
                /\ \A j, k \in 1..Len(w) : j # k => w[j] # w[k]
\* a fresh gate object (qc.x / qc.cx / qc.mcx); append() raises on a repeated qubit
NewGate(m, w) ==
   IF m.err # "" THEN m
   ELSE IF ~WfGate(m, w) THEN Err(m, "append-raises-duplicate-or-unknown-qubit")
   ELSE LET g == [id |-> m.gid, w |-> w] IN
        [m EXCEPT !.gates = Append(m.gates, g), !.gcomp = Append(m.gcomp, g), !.val = Effect(m, w), !.gid = m.gid + 1]
\* the same gate object appended again (uncompute)
ReGate(m, g) == [m EXCEPT !.gates = Append(m.gates, g), !.gcomp = Append(m.gcomp, g), !.val = Effect(m, g.w)]

\* ---- recorded choices
HasEv(m, kind) == m.ci <= Len(m.ev) /\ m.ev[m.ci].k = kind
NextEv(m, kind) == m.ev[m.ci].v
Consume(m) == [m EXCEPT !.ci = m.ci + 1]

GetFree(m) ==
  IF m.err # "" THEN [m |-> m, r |-> 0]
  ELSE IF m.policy # "rec" THEN
       (IF m.free = {}
        THEN LET m1 == AddQubit(m, AncName(m), {}) IN [m |-> [m1 EXCEPT !.anc = m.anc \cup {m.nq}], r |-> m.nq]
        ELSE LET q == IF m.policy = "min" THEN SetMin(m.free) ELSE SetMax(m.free) IN
             [m |-> [m EXCEPT !.free = m.free \ {q}, !.recycled = @ \cup {q}], r |-> q])
  ELSE IF ~HasEv(m, "g") THEN [m |-> Err(m, "no-ancilla-hand-out-recorded"), r |-> 0]
  ELSE LET v == NextEv(m, "g") IN
  IF m.free = {}
  THEN LET m1 == AddQubit(m, AncName(m), {})
           m2 == Consume([m1 EXCEPT !.anc = m.anc \cup {m.nq}])
       IN [m |-> IF v = m.nq THEN m2 ELSE Err(m2, "recorded-ancilla-is-not-the-new-qubit"), r |-> m.nq]
  ELSE IF v \in m.free THEN [m |-> Consume([m EXCEPT !.free = m.free \ {v}, !.recycled = @ \cup {v}]), r |-> v]
  ELSE [m |-> Err(m, "recorded-ancilla-is-not-free"), r |-> SetMin(m.free)]
Mark(m, q) == IF q \in m.anc THEN [m EXCEPT !.marked = m.marked \cup {q}] ELSE m
MarkAll(m, S) == [m EXCEPT !.marked = m.marked \cup (S \cap m.anc)]

\* ---- ExpQMap
EMapRemove(m, qs) == [m EXCEPT !.emap = {p \in m.emap : p[2] \notin qs}]
EMapSet(m, e, q) == LET m1 == EMapRemove(m, {q}) IN [m1 EXCEPT !.emap = {p \in m1.emap : p[1] # e} \cup {<<e, q>>}]
EMapHas(m, e) == \E p \in m.emap : p[1] = e
EMapGet(m, e) == (CHOOSE p \in m.emap : p[1] = e)[2]
EMapRemoveSymbol(m, s) == [m EXCEPT !.emap = {p \in m.emap : ~(s \in FreeSyms(p[1]) /\ p[1] # [op |-> "sym", n |-> s])}]

\* ---- uncompute(): replay, in reverse, the computed gates whose target is marked; free EVERY marked qubit
Uncompute(m) ==
  IF m.marked = {} THEN [m |-> m, unc |-> {}] ELSE
  LET RECURSIVE F(_, _, _, _)
      F(j, mm, kept, unc) ==
         IF j = 0 THEN [m |-> mm, kept |-> kept, unc |-> unc]
         ELSE LET g == m.gcomp[j] IN
              IF GTgt(g.w) \in m.marked THEN F(j - 1, ReGate(mm, g), kept, unc \cup {GTgt(g.w)})
              ELSE F(j - 1, mm, <<g>> \o kept, unc)
      r == F(Len(m.gcomp), m, <<>>, {})
      \* diagnostic (ghost): a qubit is handed back to the free set while it is not zero on some input
      dirty == \E q \in m.marked : r.m.val[q + 1] # {}
  IN [m |-> [r.m EXCEPT !.free = m.free \cup m.marked, !.marked = m.marked \ r.unc, !.gcomp = r.kept,
                        !.flags = IF dirty THEN @ \cup {"inline-uncompute-released-a-non-zero-ancilla"} ELSE @],
      unc |-> r.unc]

MapQubit(m, name, q, promote) ==
  LET m1 == IF promote /\ q \in m.anc
            THEN LET m2 == [m EXCEPT !.anc = m.anc \ {q}] IN
                 IF HasKeyByIndex(m2, q) THEN QDel(m2, KeyByIndex(m2, q)) ELSE m2
            ELSE m
  IN QSet(m1, name, q)

RmFirst(s, x) == LET I == {i \in 1..Len(s) : s[i] = x} IN
                 IF I = {} THEN s ELSE LET k == SetMin(I) IN SubSeq(s, 1, k - 1) \o SubSeq(s, k + 1, Len(s))

\* list(set(erets)) in the recorded iteration order
Ordered(m, S) ==
  IF m.policy = "min" THEN [m |-> m, s |-> SetToSortSeq(S, <)]
  ELSE IF m.policy = "max" THEN [m |-> m, s |-> SetToSortSeq(S, >)]
  ELSE IF ~HasEv(m, "o") THEN [m |-> Err(m, "no-operand-order-recorded"), s |-> SetToSortSeq(S, <)]
  ELSE LET v == NextEv(m, "o") IN
  IF ToSet(v) = S /\ Len(v) = Cardinality(S) THEN [m |-> Consume(m), s |-> v]
  ELSE [m |-> Err(Consume(m), "recorded-operand-order-is-not-the-operand-set"), s |-> SetToSortSeq(S, <)]

RECURSIVE CExpr(_, _, _, _)
CArgs(m, args) ==
  LET RECURSIVE F(_, _, _)
      F(j, mm, rs) == IF j > Len(args) THEN [m |-> mm, rs |-> rs]
                      ELSE LET r == CExpr(mm, args[j], -1, "") IN F(j + 1, r.m, Append(rs, r.r))
  IN F(1, m, <<>>)

\* xor_into(expr, d)
XorInto(m, e, d) ==
  LET r == CExpr(m, e, d, "")
      m1 == IF r.r # d THEN Mark(NewGate(r.m, <<r.r, d>>), r.r) ELSE r.m
  IN EMapRemove(m1, {d})

CXor(m, e, dest) ==
  LET g0 == IF dest # -1 THEN [m |-> m, r |-> dest] ELSE GetFree(m)
      d == g0.r
      RECURSIVE F(_, _)
      F(j, mm) ==
        IF j > Len(e.args) THEN mm ELSE
        LET a == e.args[j] IN
        IF a.op = "sym" /\ QGet(mm, a.n) = d THEN F(j + 1, mm)
        ELSE IF a.op = "sym" THEN
             (IF QHas(mm, a.n) THEN F(j + 1, NewGate(mm, <<QGet(mm, a.n), d>>)) ELSE Err(mm, "symbol-not-found"))
        ELSE IF a.op = "not" /\ a.args[1].op # "sym" THEN F(j + 1, NewGate(XorInto(mm, a.args[1], d), <<d>>))
        ELSE F(j + 1, XorInto(mm, a, d))
  IN [m |-> EMapSet(F(1, g0.m), e, d), r |-> d]

CAnd(m, e, dest) ==
  LET a == CArgs(m, e.args)
      g0 == IF dest # -1 THEN [m |-> a.m, r |-> dest] ELSE GetFree(a.m)
      o == Ordered(g0.m, ToSet(RmFirst(a.rs, g0.r)))
      m1 == NewGate(o.m, Append(o.s, g0.r))
  IN [m |-> EMapSet(MarkAll(m1, ToSet(o.s)), e, g0.r), r |-> g0.r]

COr(m, e, dest) ==
  LET a == CArgs(m, e.args)
      g0 == IF dest # -1 THEN [m |-> a.m, r |-> dest] ELSE GetFree(a.m)
      o == Ordered(g0.m, ToSet(RmFirst(a.rs, g0.r)))
      cs == o.s
      RECURSIVE CXs(_, _) CXs(j, mm) == IF j > Len(cs) THEN mm ELSE CXs(j + 1, NewGate(mm, <<cs[j], g0.r>>))
      RECURSIVE Xs(_, _) Xs(j, mm) == IF j > Len(cs) THEN mm ELSE Xs(j + 1, NewGate(mm, <<cs[j]>>))
      m1 == IF Len(cs) = 1 THEN NewGate(o.m, <<cs[1], g0.r>>)
            ELSE IF Len(cs) <= 2 THEN NewGate(CXs(1, o.m), Append(cs, g0.r))
            ELSE Xs(1, NewGate(NewGate(Xs(1, o.m), Append(cs, g0.r)), <<g0.r>>))
  IN [m |-> EMapSet(MarkAll(m1, ToSet(cs)), e, g0.r), r |-> g0.r]

CNot(m, e, dest, sym) ==
  IF e.args[1].op = "sym" /\ sym # "" /\ e.args[1].n = sym
  THEN LET q == QGet(m, sym) IN (IF QHas(m, sym) THEN [m |-> NewGate(m, <<q>>), r |-> q] ELSE [m |-> Err(m, "symbol-not-found"), r |-> 0])
  ELSE LET was == EMapHas(m, e.args[1])
           r == CExpr(m, e.args[1], -1, "")
       IN IF r.r \in r.m.anc /\ ~was
          THEN [m |-> EMapSet(NewGate(r.m, <<r.r>>), e, r.r), r |-> r.r]
          ELSE LET g0 == IF dest # -1 THEN [m |-> r.m, r |-> dest] ELSE GetFree(r.m)
                   m1 == NewGate(NewGate(g0.m, <<r.r, g0.r>>), <<g0.r>>)
               IN [m |-> EMapSet(Mark(m1, r.r), e, g0.r), r |-> g0.r]

CSym(m, e, dest, sym) ==
  IF sym # "" /\ sym \in m.rets THEN
     IF e.n \in m.inputs \/ (QHas(m, e.n) /\ QGet(m, e.n) < Cardinality(m.inputs))
     THEN LET m1 == AddQubit(m, sym, {}) IN [m |-> NewGate(m1, <<QGet(m1, e.n), m.nq>>), r |-> m.nq]
     ELSE [m |-> IF QHas(m, e.n) THEN m ELSE Err(m, "symbol-not-found"), r |-> QGet(m, e.n)]
  ELSE [m |-> IF QHas(m, e.n) THEN m ELSE Err(m, "symbol-not-found"), r |-> QGet(m, e.n)]

CConst(m, e) ==
  IF e.op = "false" THEN (IF m.cqF # -1 THEN [m |-> m, r |-> m.cqF] ELSE [m |-> [AddQubit(m, FreshName(m, "FALSE"), {}) EXCEPT !.cqF = m.nq], r |-> m.nq])
  ELSE (IF m.cqT # -1 THEN [m |-> m, r |-> m.cqT] ELSE [m |-> NewGate([AddQubit(m, FreshName(m, "TRUE"), {}) EXCEPT !.cqT = m.nq], <<m.nq>>), r |-> m.nq])

CExpr(m, e, dest, sym) ==
  IF m.err # "" THEN [m |-> m, r |-> 0]
  ELSE IF e.op \in {"true", "false"} /\ sym # "" /\ sym \in m.rets
       THEN LET m1 == AddQubit(m, sym, {}) IN [m |-> IF e.op = "true" THEN NewGate(m1, <<m.nq>>) ELSE m1, r |-> m.nq]
  ELSE IF e.op \in {"true", "false"} THEN CConst(m, e)
  ELSE IF e.op = "sym" THEN CSym(m, e, dest, sym)
  ELSE IF EMapHas(m, e) THEN [m |-> m, r |-> EMapGet(m, e)]
  ELSE IF e.op = "xor" THEN CXor(m, e, dest)
  ELSE IF e.op = "not" THEN CNot(m, e, dest, sym)
  ELSE IF e.op = "and" THEN CAnd(m, e, dest)
  ELSE IF e.op = "or" THEN COr(m, e, dest)
  ELSE [m |-> Err(m, "compiler-exception-expression-kind"), r |-> 0]

\* compile() steps 2.1 - 2.3 for one definition
CompileOne(m, sym, e) ==
  LET r == CExpr(m, e, -1, sym)
      m1 == EMapSet(EMapRemoveSymbol(r.m, sym), [op |-> "sym", n |-> sym], r.r)
      m2 == MapQubit(m1, sym, r.r, sym \notin m.temps)
  IN IF r.m.err # "" THEN r.m
     ELSE IF sym \in m.temps THEN m2
     ELSE LET u == Uncompute(m2) IN EMapRemove(u.m, u.unc)

\* remove_identities (no barriers inside a compile; every gate here is self-inverse)
GEq(g, h) == g.id = h.id /\ g.w = h.w
RemoveIdentities(m) ==
  LET n == Len(m.gates)
      RECURSIVE F(_, _)
      F(i, res) == IF i > n THEN res
                   ELSE IF i < n /\ GEq(m.gates[i], m.gates[i + 1]) THEN F(i + 2, res)
                   ELSE F(i + 1, Append(res, m.gates[i]))
  IN [m EXCEPT !.gates = F(1, <<>>)]

\* uncompute_all(keep): replay (as NEW gate objects) every gate whose target is neither kept nor free at that moment
UncomputeAll(m, keep) ==
  LET RECURSIVE F(_, _)
      F(j, mm) == IF j = 0 THEN mm ELSE
         LET g == m.gates[j] IN
         IF GTgt(g.w) \in keep \/ GTgt(g.w) \in mm.free THEN F(j - 1, mm)
         ELSE LET m1 == NewGate(mm, g.w) IN
              F(j - 1, [m1 EXCEPT !.free = IF GTgt(g.w) \in mm.anc THEN mm.free \cup {GTgt(g.w)} ELSE mm.free])
  IN F(Len(m.gates), m)

\* the whole of InternalCompiler.compile() for case c: inputs, exprs (<<name, expr>>), rets (names that
\* start with _ret), temps (names that start with __), retbits (returns.bitvec), unc, ev
Start(c, U) ==
  LET m0 == M0(U, c.ev, ToSet(c.inputs), ToSet(c.rets), ToSet(c.temps))
      RECURSIVE A(_, _) A(k, mm) == IF k > Len(c.inputs) THEN mm ELSE A(k + 1, AddQubit(mm, c.inputs[k], SymRows(U, k - 1)))
  IN A(1, m0)
RECURSIVE Stmts(_, _, _)
Stmts(c, k, mm) == IF k > Len(c.exprs) \/ mm.err # "" THEN mm ELSE Stmts(c, k + 1, CompileOne(mm, c.exprs[k][1], c.exprs[k][2]))
Finish(c, m1) ==
  LET m2 == RemoveIdentities(m1)
      keep == {QGet(m2, r) : r \in {x \in ToSet(c.retbits) : QHas(m2, x)}}
      m3 == UncomputeAll(m2, keep)
      left == \E q \in Len(c.inputs)..(m3.nq - 1) : q \notin keep /\ m3.val[q + 1] # {}
      \* diagnostic (ghost): a return bit lives on a qubit that was used as scratch before it was handed out again
      recyc == IF keep \cap m2.recycled # {} THEN {"return-qubit-is-a-recycled-ancilla"} ELSE {}
  IN IF m1.err # "" THEN m1
     ELSE IF c.unc THEN [m3 EXCEPT !.flags = (IF left THEN @ \cup {"uncompute_all-left-a-qubit-non-zero"} ELSE @) \cup recyc]
     ELSE [m2 EXCEPT !.flags = @ \cup recyc]
Compile(c, U) == Finish(c, Stmts(c, 1, Start(c, U)))

\* ---- invariants of the synthesis machine (stronger than any property: evaluated as diagnostics)
FreeIsZero(m) == \A q \in m.free : m.val[q + 1] = {}
GatesW(m) == [k \in 1..Len(m.gates) |-> m.gates[k].w]
=============================================================================

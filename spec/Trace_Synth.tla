----------------------------- MODULE Trace_Synth -----------------------------
(***************************************************************************)
(* Refinement binding for the synthesis machine: one case = one recorded    *)
(* InternalCompiler.compile() of the real library (expression list, hook    *)
(* events = ancilla hand-outs and operand iteration orders, final gate      *)
(* list, qubit count and qubit map).  TLC runs the transcribed algorithm     *)
(* (Synth.Compile) on the same list, feeding it the recorded choices, and   *)
(* compares its prediction with the recording:                              *)
(*   "conform"  same gate list (controls as sets, same target), same qubit   *)
(*              count, same qubit map indices                                *)
(*   "drift"    anything else - the model does not describe this code.       *)
(* Drift is never a property violation; conformance is what lets a failing  *)
(* property clause be attributed to the (known) algorithm rather than to a   *)
(* change of it.                                                             *)
(***************************************************************************)
EXTENDS Synth, TLC, Json, IOUtils

Cases == JsonDeserialize(IOEnv.CASES)
VARIABLE i

SameGate(a, b) == Len(a) = Len(b) /\ GTgt(a) = GTgt(b) /\ ToSet(GCtrl(a)) = ToSet(GCtrl(b))
FirstDiffGate(A, B) ==
  LET n == IF Len(A) < Len(B) THEN Len(A) ELSE Len(B)
      D == {k \in 1..n : ~SameGate(A[k], B[k])}
  IN IF D # {} THEN SetMin(D) - 1 ELSE IF Len(A) # Len(B) THEN n ELSE -1

Verdict(c) ==
  LET U == Rows(Len(c.inputs))
      m == Compile(c, U)
      real == [k \in 1..Len(c.gates) |-> c.gates[k].w]
  IN
  IF m.err # "" THEN <<"drift", m.err, 0>>
  ELSE IF FirstDiffGate(GatesW(m), real) # -1 THEN <<"drift", "gate-list-differs", FirstDiffGate(GatesW(m), real)>>
  ELSE IF m.nq # c.nq THEN <<"drift", "qubit-count", m.nq>>
  ELSE IF Len(m.qmap) # Len(c.qmap) \/ \E k \in 1..Len(c.qmap) : m.qmap[k] # c.qmap[k] THEN <<"drift", "qubit-map", 0>>
  ELSE IF m.ci # Len(c.ev) + 1 THEN <<"drift", "unconsumed-events", m.ci>>
  ELSE <<"conform", m.flags, Len(m.gates)>>

Init == i = 1
Next == /\ i <= Len(Cases)
        /\ PrintT(<<"V", Cases[i].id, Verdict(Cases[i])>>)
        /\ i' = i + 1
Spec == Init /\ [][Next]_i
=============================================================================

------------------------------- MODULE MC_Synth -------------------------------
(***************************************************************************)
(* Model checking of the synthesis machine (refinement layer) over a        *)
(* universe of expression lists, under both choice policies.                *)
(*                                                                         *)
(* State: which list (c), which policy, how many definitions are compiled    *)
(* (pc), the machine m.  One step = one definition (compile() steps 2.1-2.3) *)
(* then remove_identities + uncompute_all.  In EVERY reachable state the     *)
(* machine's invariants are evaluated over ALL input rows:                   *)
(*   NoError        the code would not raise                                 *)
(*   NamedHolds     every defined symbol's qubit holds the symbol's value    *)
(*   CacheCoherent  every cached expression's qubit holds its value          *)
(*   FreeIsZero     every released ancilla is zero                           *)
(*   Correct/Clean  (final state) the contract clauses of C02 / C03          *)
(* Invariant failures are PRINTED (one line per state and invariant), not    *)
(* raised: the known-unsound uncomputation scheme breaks some of them, and   *)
(* the harness needs all of them to replay the lists on the real compiler.   *)
(* The universe comes from the real library (sympy-canonical trees run       *)
(* through fastOptimizer), fed as JSON.                                      *)
(***************************************************************************)
EXTENDS Synth, TLC, Json, IOUtils

Universe == JsonDeserialize(IOEnv.CASES)
VARIABLES cid, policy, pc, m

C == Universe[cid]
U0 == Rows(Len(C.inputs))
NDefs == Len(C.exprs)

Init == /\ cid \in 1..Len(Universe) /\ policy \in {"min", "max"} /\ pc = 0
        /\ m = [Start(Universe[cid], Rows(Len(Universe[cid].inputs))) EXCEPT !.policy = policy]
StepDef == /\ pc < NDefs /\ m.err = ""
           /\ m' = CompileOne(m, C.exprs[pc + 1][1], C.exprs[pc + 1][2]) /\ pc' = pc + 1 /\ UNCHANGED <<cid, policy>>
StepEnd == /\ pc = NDefs /\ m.err = ""
           /\ m' = Finish(C, m) /\ pc' = pc + 1 /\ UNCHANGED <<cid, policy>>
Next == StepDef \/ StepEnd
Spec == Init /\ [][Next]_<<cid, policy, pc, m>>

\* environment after the first k definitions
EnvAt(k) == SemList(SubSeq(C.exprs, 1, k), C.inputs, U0)
Closed == Unbound(C.exprs, C.inputs) = {}
KD == IF pc > NDefs THEN NDefs ELSE pc
NamedHolds == LET env == EnvAt(KD) IN
              \A s \in DOMAIN env : QHas(m, s) => m.val[QGet(m, s) + 1] = env[s]
CacheCoherent == LET env == EnvAt(KD) IN
                 \A p \in m.emap : (FreeSyms(p[1]) \subseteq DOMAIN env) => m.val[p[2] + 1] = Sem(p[1], env, U0)
FreeZero == \A q \in m.free : m.val[q + 1] = {}
Final == pc = NDefs + 1
Correct == LET env == EnvAt(NDefs) IN \A k \in 1..Len(C.retbits) : QHas(m, C.retbits[k]) /\ m.val[QGet(m, C.retbits[k]) + 1] = env[C.retbits[k]]
Clean == LET keep == {QGet(m, C.retbits[k]) : k \in 1..Len(C.retbits)} IN
         /\ \A q \in 0..(Len(C.inputs) - 1) : m.val[q + 1] = SymRows(U0, q)
         /\ \A q \in Len(C.inputs)..(m.nq - 1) : q \notin keep => m.val[q + 1] = {}

Broken == (IF m.err # "" THEN {"NoError:" \o m.err} ELSE {})
          \cup (IF m.err = "" /\ Closed /\ ~Final /\ ~NamedHolds THEN {"NamedHolds"} ELSE {})
          \cup (IF m.err = "" /\ Closed /\ ~Final /\ ~CacheCoherent THEN {"CacheCoherent"} ELSE {})
          \cup (IF m.err = "" /\ ~FreeZero THEN {"FreeIsZero"} ELSE {})
          \cup (IF m.err = "" /\ Closed /\ Final /\ ~Correct THEN {"Correct"} ELSE {})
          \cup (IF m.err = "" /\ Closed /\ Final /\ C.unc /\ ~Clean THEN {"Clean"} ELSE {})
Report == Broken # {} => PrintT(<<"B", C.id, policy, pc, Broken>>)
=============================================================================

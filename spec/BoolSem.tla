------------------------------ MODULE BoolSem ------------------------------
(***************************************************************************)
(* Contract layer: denotation of boolean expression trees.                  *)
(*                                                                         *)
(* An expression is a record  [op |-> "sym", n |-> name]                    *)
(*                          | [op |-> "true"] | [op |-> "false"]            *)
(*                          | [op |-> o, args |-> <<e1, ..., ek>>]          *)
(* with o in {"not","and","or","xor","ite","implies"} (and/or/xor n-ary).   *)
(*                                                                         *)
(* The meaning of an expression over n input bits is the SET OF INPUT ROWS  *)
(* (integers 0 .. 2^n-1, bit k-1 of the row = value of the k-th input bit)  *)
(* on which it is true.  An environment maps symbol names to such sets.     *)
(* All quantification "for every input" in the properties becomes equality  *)
(* of row sets.                                                            *)
(***************************************************************************)
EXTENDS Integers, Sequences, FiniteSets

SD(A, B) == (A \ B) \cup (B \ A)

Pow2(n) == 2^n
Rows(n) == 0 .. (Pow2(n) - 1)
BitOf(r, k) == (r \div Pow2(k)) % 2 = 1          \* k is 0-based
SymRows(U, k) == {r \in U : BitOf(r, k)}          \* rows where input bit k (0-based) is 1

IsSym(e)   == e.op = "sym"
IsConst(e) == e.op \in {"true", "false"}

RECURSIVE Sem(_, _, _)
Sem(e, env, U) ==
  CASE e.op = "sym"   -> env[e.n]
    [] e.op = "true"  -> U
    [] e.op = "false" -> {}
    [] e.op = "not"   -> U \ Sem(e.args[1], env, U)
    [] e.op = "and"   -> LET RECURSIVE F(_)
                             F(j) == IF j > Len(e.args) THEN U
                                     ELSE Sem(e.args[j], env, U) \cap F(j+1)
                         IN F(1)
    [] e.op = "or"    -> LET RECURSIVE F(_)
                             F(j) == IF j > Len(e.args) THEN {}
                                     ELSE Sem(e.args[j], env, U) \cup F(j+1)
                         IN F(1)
    [] e.op = "xor"   -> LET RECURSIVE F(_)
                             F(j) == IF j > Len(e.args) THEN {}
                                     ELSE SD(Sem(e.args[j], env, U), F(j+1))
                         IN F(1)
    [] e.op = "ite"   -> LET c == Sem(e.args[1], env, U)
                         IN (c \cap Sem(e.args[2], env, U)) \cup ((U \ c) \cap Sem(e.args[3], env, U))
    [] e.op = "implies" -> (U \ Sem(e.args[1], env, U)) \cup Sem(e.args[2], env, U)

\* free symbols of an expression
RECURSIVE FreeSyms(_)
FreeSyms(e) ==
  IF e.op = "sym" THEN {e.n}
  ELSE IF e.op \in {"true", "false"} THEN {}
  ELSE UNION {FreeSyms(e.args[j]) : j \in 1..Len(e.args)}

RECURSIVE Size(_)
Size(e) == IF e.op \in {"sym", "true", "false"} THEN 1
           ELSE LET RECURSIVE F(_) F(j) == IF j > Len(e.args) THEN 1 ELSE Size(e.args[j]) + F(j+1) IN F(1)

\* environment of the inputs: name k of `inputs` (a sequence of names) holds SymRows(U, k-1)
InputEnv(inputs, U) ==
  [n \in {inputs[k] : k \in 1..Len(inputs)} |->
      SymRows(U, (CHOOSE k \in 1..Len(inputs) : inputs[k] = n) - 1)]

EnvSet(env, n, v) == [x \in DOMAIN env \cup {n} |-> IF x = n THEN v ELSE env[x]]

(***************************************************************************)
(* An expression LIST is a sequence of pairs <<name, expr>> consumed in     *)
(* order; a later definition of a name shadows the earlier one.            *)
(* SemList returns the final environment.  A symbol that is used before it  *)
(* is defined and is not an input is "unbound": UnboundIn reports them.     *)
(***************************************************************************)
RECURSIVE SemListFrom(_, _, _, _)
SemListFrom(exprs, k, env, U) ==
  IF k > Len(exprs) THEN env
  ELSE SemListFrom(exprs, k+1, EnvSet(env, exprs[k][1], Sem(exprs[k][2], env, U)), U)
SemList(exprs, inputs, U) == SemListFrom(exprs, 1, InputEnv(inputs, U), U)

RECURSIVE UnboundFrom(_, _, _)
UnboundFrom(exprs, k, known) ==
  IF k > Len(exprs) THEN {}
  ELSE (FreeSyms(exprs[k][2]) \ known) \cup UnboundFrom(exprs, k+1, known \cup {exprs[k][1]})
Unbound(exprs, inputs) == UnboundFrom(exprs, 1, {inputs[k] : k \in 1..Len(inputs)})

Defined(exprs) == {exprs[k][1] : k \in 1..Len(exprs)}

(***************************************************************************)
(* Live(exprs, rets): the sub-list of definitions the symbols in `rets`     *)
(* transitively depend on (backward slice; a definition of n serves the     *)
(* uses of n that follow it).  Dead definitions cannot influence a return   *)
(* value, so a stray symbol in one of them is reported separately.          *)
(***************************************************************************)
RECURSIVE LiveFrom(_, _, _, _)
LiveFrom(exprs, k, needed, acc) ==
  IF k = 0 THEN acc
  ELSE IF exprs[k][1] \in needed
       THEN LiveFrom(exprs, k - 1, (needed \ {exprs[k][1]}) \cup FreeSyms(exprs[k][2]), <<exprs[k]>> \o acc)
       ELSE LiveFrom(exprs, k - 1, needed, acc)
Live(exprs, rets) == LiveFrom(exprs, Len(exprs), rets, <<>>)
=============================================================================

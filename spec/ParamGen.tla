------------------------------ MODULE ParamGen ------------------------------
(***************************************************************************)
(* Generator specification for C08: behaviours are BIND HISTORIES of one    *)
(* parameterised function.  A state is (program, history); each step binds  *)
(* the same unbound object to another parameter valuation, with the         *)
(* keywords in either order.  BFS to MaxLen enumerates all histories over   *)
(* the valuation pool of the program.                                       *)
(***************************************************************************)
EXTENDS AstLib, FiniteSets, TLC, Json

CONSTANTS ProgId, MaxLen
VARIABLES hist, mode

I2 == TInt(2)
I4 == TInt(4)
LL(es) == [T |-> "List", elts |-> es]
\* [def, pool]: pool = set of valuations, a valuation = sequence of <<name, constant-node>>
Prog ==
  CASE ProgId = 1 -> [def |-> FunDef("f", <<ParamArg("c", TBool), Arg("a", TBool), Arg("b", TBool)>>,
                                     <<Ret(BoolOpN("And", <<Bin("BitXor", Name("a"), Name("c")), Name("b")>>))>>, TBool),
                      pool |-> {<< <<"c", CB(v)>> >> : v \in BOOLEAN}]
    [] ProgId = 2 -> [def |-> FunDef("f", <<ParamArg("c", I2), Arg("a", I2)>>, <<Ret(Bin("Add", Name("a"), Name("c")))>>, I2),
                      pool |-> {<< <<"c", CI(v)>> >> : v \in 0..3}]
    [] ProgId = 3 -> [def |-> FunDef("f", <<ParamArg("c", I2), ParamArg("d", I2), Arg("a", TBool)>>,
                                     <<Ret(IfE(Name("a"), Bin("Add", Name("c"), Name("d")), Bin("Add", Name("c"), CI(1))))>>, I2),
                      pool |-> {<< <<"c", CI(v)>>, <<"d", CI(w)>> >> : v \in {0, 1, 3}, w \in {0, 2}}
                               \cup {<< <<"d", CI(w)>>, <<"c", CI(v)>> >> : v \in {1, 3}, w \in {1, 2}}]
    [] ProgId = 4 -> [def |-> FunDef("f", <<ParamArg("l", TList(I2, 3)), Arg("a", I2)>>,
                                     <<Ret(Bin("Add", Name("a"), Call1("sum", Name("l"))))>>, I4),
                      pool |-> {<< <<"l", [T |-> "List", elts |-> <<CI(x), CI(y), CI(1)>>]>> >> : x \in {0, 3}, y \in {1, 2}}]
    [] ProgId = 5 -> [def |-> FunDef("f", <<Arg("a", I2), ParamArg("l", TList(I2, 3))>>,
                                     <<Assign("u", CI(0)), For("i", Name("l"), <<Aug("u", "BitXor", Bin("BitAnd", Name("i"), Name("a")))>>), Ret(Name("u"))>>, I2),
                      pool |-> {<< <<"l", [T |-> "List", elts |-> <<CI(x), CI(y), CI(z)>>]>> >> : x \in {1, 3}, y \in {0, 2}, z \in {3}}]
    [] ProgId = 6 -> [def |-> FunDef("f", <<ParamArg("t", TTup(<<TBool, I2>>)), Arg("a", I2)>>,
                                     <<Ret(IfE(Sub(Name("t"), CI(0)), Name("a"), Sub(Name("t"), CI(1))))>>, I2),
                      pool |-> {<< <<"t", Tup(<<CB(b), CI(v)>>)>> >> : b \in BOOLEAN, v \in {0, 3}}]
    [] ProgId = 7 -> [def |-> FunDef("f", <<Arg("a", I2), ParamArg("c", I4), Arg("b", TBool)>>,
                                     <<Assign("u", Name("a")), If(Name("b"), <<Aug("u", "Add", Name("c"))>>, <<>>), Ret(Bin("BitXor", Name("u"), Name("c")))>>, I4),
                      pool |-> {<< <<"c", CI(v)>> >> : v \in {0, 1, 5, 9}}]
    [] ProgId = 8 -> [def |-> FunDef("f", <<ParamArg("l", TList(I2, 4)), Arg("a", I2)>>,
                                     <<Ret(Sub(Name("l"), Name("a")))>>, I2),
                      pool |-> {<< <<"l", [T |-> "List", elts |-> <<CI(x), CI(2), CI(y), CI(0)>>]>> >> : x \in {1, 3}, y \in {0, 3}}]
    \* the parameter's own name is WRITTEN in the body (the injected constant is only its initial value)
    [] ProgId = 9 -> [def |-> FunDef("f", <<Arg("a", I2), ParamArg("c", I2), Arg("b", TBool)>>,
                                     <<Assign("c", Bin("Add", Name("c"), CI(1))), If(Name("b"), <<Aug("c", "BitXor", Name("a"))>>, <<>>),
                                       Ret(Bin("Add", Name("a"), Name("c")))>>, I4),
                      pool |-> {<< <<"c", CI(v)>> >> : v \in 0..3}]
    [] ProgId = 10 -> [def |-> FunDef("f", <<ParamArg("k", TBool), ParamArg("c", I2), Arg("a", I2)>>,
                                      <<Assign("u", CI(0)), For("i", CallN("range", <<CI(3)>>), <<Aug("c", "Add", Name("a")), Aug("u", "BitXor", Name("c"))>>),
                                        Assign("k", BoolOpN("Or", <<Name("k"), Cmp("Gt", Name("u"), CI(2))>>)),
                                        Ret(IfE(Name("k"), Name("u"), Name("c")))>>, I4),
                       pool |-> {<< <<"k", CB(b)>>, <<"c", CI(v)>> >> : b \in BOOLEAN, v \in {0, 1, 3}}]
    \* a table (list of lists) as parameter: the value object handed to bind() has inner lists of its own
    [] ProgId = 11 -> [def |-> FunDef("f", <<ParamArg("tb", TList(TList(TBool, 2), 2)), Arg("a", TBool), Arg("b", TBool)>>,
                                      <<Assign("v", CB(FALSE)),
                                        For("row", Name("tb"), <<Assign("v", BoolOpN("Or", <<Name("v"), BoolOpN("And", <<Cmp("Eq", Sub(Name("row"), CI(0)), Name("a")),
                                                                                                                     Cmp("Eq", Sub(Name("row"), CI(1)), Name("b"))>>)>>))>>),
                                        Ret(Name("v"))>>, TBool),
                       pool |-> {<< <<"tb", LL(<<LL(<<CB(x), CB(FALSE)>>), LL(<<CB(FALSE), CB(y)>>)>>)>> >> : x \in BOOLEAN, y \in BOOLEAN}]
    [] ProgId = 12 -> [def |-> FunDef("f", <<ParamArg("m", TList(TList(I2, 2), 2)), Arg("a", I2)>>,
                                      <<Assign("u", CI(0)), For("r", Name("m"), <<For("x", Name("r"), <<Aug("u", "Add", Bin("BitAnd", Name("x"), Name("a")))>>)>>), Ret(Name("u"))>>, I4),
                       pool |-> {<< <<"m", LL(<<LL(<<CI(x), CI(1)>>), LL(<<CI(2), CI(y)>>)>>)>> >> : x \in {0, 3}, y \in {1, 3}}]

\* mode: how the harness hands the values over - "fresh": a new Python object per bind; "inplace": ONE object per
\* parameter for the whole history, edited in place (element by element, inner lists too) before every later bind
Init == hist = <<>> /\ mode \in {"fresh", "inplace"}
Next == /\ Len(hist) < MaxLen
        /\ \E v \in Prog.pool : hist' = Append(hist, v)
        /\ UNCHANGED mode
Spec == Init /\ [][Next]_<<hist, mode>>
Emit == Len(hist) >= 1 /\ (mode = "inplace" => Len(hist) >= 2) => PrintT(<<"H", ToJson([def |-> Prog.def, hist |-> hist, mode |-> mode])>>)
=============================================================================

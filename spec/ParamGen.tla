------------------------------ MODULE ParamGen ------------------------------
(***************************************************************************)
(* Generator specification for C08: behaviours are BIND HISTORIES of one    *)
(* parameterised function.  A state is (program, history); each step binds  *)
(* the same unbound object to another parameter valuation, with the         *)
(* keywords in either order.  BFS to MaxLen enumerates all histories over   *)
(* the valuation pool of the program.                                       *)
(***************************************************************************)
EXTENDS AstLib, FiniteSets, TLC, Json

CONSTANTS ProgId, MaxLen
VARIABLES hist

I2 == TInt(2)
I4 == TInt(4)
\* [def, pool]: pool = set of valuations, a valuation = sequence of <<name, constant-node>>
Prog ==
  CASE ProgId = 1 -> [def |-> FunDef("f", <<ParamArg("c", TBool), Arg("a", TBool), Arg("b", TBool)>>,
                                     <<Ret(BoolOpN("And", <<Bin("BitXor", Name("a"), Name("c")), Name("b")>>))>>, TBool),
                      pool |-> {<< <<"c", CB(v)>> >> : v \in BOOLEAN}]
    [] ProgId = 2 -> [def |-> FunDef("f", <<ParamArg("c", I2), Arg("a", I2)>>, <<Ret(Bin("Add", Name("a"), Name("c")))>>, I2),
                      pool |-> {<< <<"c", CI(v)>> >> : v \in 0..3}]
    [] ProgId = 3 -> [def |-> FunDef("f", <<ParamArg("c", I2), ParamArg("d", I2), Arg("a", TBool)>>,
                                     <<Ret(IfE(Name("a"), Bin("Add", Name("c"), Name("d")), Bin("Add", Name("c"), CI(1))))>>, I2),
                      pool |-> {<< <<"c", CI(v)>>, <<"d", CI(w)>> >> : v \in {0, 1, 3}, w \in {0, 2}}
                               \cup {<< <<"d", CI(w)>>, <<"c", CI(v)>> >> : v \in {1, 3}, w \in {1, 2}}]
    [] ProgId = 4 -> [def |-> FunDef("f", <<ParamArg("l", TList(I2, 3)), Arg("a", I2)>>,
                                     <<Ret(Bin("Add", Name("a"), Call1("sum", Name("l"))))>>, I4),
                      pool |-> {<< <<"l", [T |-> "List", elts |-> <<CI(x), CI(y), CI(1)>>]>> >> : x \in {0, 3}, y \in {1, 2}}]
    [] ProgId = 5 -> [def |-> FunDef("f", <<Arg("a", I2), ParamArg("l", TList(I2, 3))>>,
                                     <<Assign("u", CI(0)), For("i", Name("l"), <<Aug("u", "BitXor", Bin("BitAnd", Name("i"), Name("a")))>>), Ret(Name("u"))>>, I2),
                      pool |-> {<< <<"l", [T |-> "List", elts |-> <<CI(x), CI(y), CI(z)>>]>> >> : x \in {1, 3}, y \in {0, 2}, z \in {3}}]
    [] ProgId = 6 -> [def |-> FunDef("f", <<ParamArg("t", TTup(<<TBool, I2>>)), Arg("a", I2)>>,
                                     <<Ret(IfE(Sub(Name("t"), CI(0)), Name("a"), Sub(Name("t"), CI(1))))>>, I2),
                      pool |-> {<< <<"t", Tup(<<CB(b), CI(v)>>)>> >> : b \in BOOLEAN, v \in {0, 3}}]
    [] ProgId = 7 -> [def |-> FunDef("f", <<Arg("a", I2), ParamArg("c", I4), Arg("b", TBool)>>,
                                     <<Assign("u", Name("a")), If(Name("b"), <<Aug("u", "Add", Name("c"))>>, <<>>), Ret(Bin("BitXor", Name("u"), Name("c")))>>, I4),
                      pool |-> {<< <<"c", CI(v)>> >> : v \in {0, 1, 5, 9}}]
    [] ProgId = 8 -> [def |-> FunDef("f", <<ParamArg("l", TList(I2, 4)), Arg("a", I2)>>,
                                     <<Ret(Sub(Name("l"), Name("a")))>>, I2),
                      pool |-> {<< <<"l", [T |-> "List", elts |-> <<CI(x), CI(2), CI(y), CI(0)>>]>> >> : x \in {1, 3}, y \in {0, 3}}]
    \* the parameter's own name is WRITTEN in the body (the injected constant is only its initial value)
    [] ProgId = 9 -> [def |-> FunDef("f", <<Arg("a", I2), ParamArg("c", I2), Arg("b", TBool)>>,
                                     <<Assign("c", Bin("Add", Name("c"), CI(1))), If(Name("b"), <<Aug("c", "BitXor", Name("a"))>>, <<>>),
                                       Ret(Bin("Add", Name("a"), Name("c")))>>, I4),
                      pool |-> {<< <<"c", CI(v)>> >> : v \in 0..3}]
    [] ProgId = 10 -> [def |-> FunDef("f", <<ParamArg("k", TBool), ParamArg("c", I2), Arg("a", I2)>>,
                                      <<Assign("u", CI(0)), For("i", CallN("range", <<CI(3)>>), <<Aug("c", "Add", Name("a")), Aug("u", "BitXor", Name("c"))>>),
                                        Assign("k", BoolOpN("Or", <<Name("k"), Cmp("Gt", Name("u"), CI(2))>>)),
                                        Ret(IfE(Name("k"), Name("u"), Name("c")))>>, I4),
                       pool |-> {<< <<"k", CB(b)>>, <<"c", CI(v)>> >> : b \in BOOLEAN, v \in {0, 1, 3}}]

Init == hist = <<>>
Next == /\ Len(hist) < MaxLen
        /\ \E v \in Prog.pool : hist' = Append(hist, v)
Spec == Init /\ [][Next]_hist
Emit == Len(hist) >= 1 => PrintT(<<"H", ToJson([def |-> Prog.def, hist |-> hist])>>)
=============================================================================

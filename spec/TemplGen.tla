------------------------------ MODULE TemplGen ------------------------------
(***************************************************************************)
(* Generator specification: programs from STATEMENT TEMPLATES (control-flow *)
(* skeletons with holes filled from small expression pools).  Every initial *)
(* state is one program; TLC's enumeration of the initial states is the     *)
(* exhaustive enumeration of the family.  Complements ProgGen, whose        *)
(* breadth-first layers reach rich expressions but only shallow control     *)
(* flow within the token bound.                                             *)
(*   loopif   u = E; for i in range(K): if i CMP C: u AOP= F(i); return u   *)
(*   elif     u = E; if B1: u = E1  elif B2: u = E2  [else: u = E3]          *)
(*   nested   u = X; for r in m: for x in r: u = u OP x                     *)
(*   listidx  for i in range(3): u AOP= l[i] ; u AOP= l[a]                  *)
(*   swapuse  u, v = E1, E2; u, v = v, u OP v; return u OP v                *)
(*   ifaug    u = E; if B: u AOP= F else: v-style second variable           *)
(*   iftest   if <variable>: <variable> = ...; <more assignments> [else ...]  *)
(*            (the test variable is written inside the statement), take-    *)
(*            while loops                                                   *)
(*   opgrid   return a OP b / a OP k / k OP a  for EVERY pair of argument     *)
(*            widths 2..8 (<= 10 input bits), every arithmetic, bitwise,     *)
(*            shift and comparison operator, several return widths: the      *)
(*            operator x width grid of the translator (mixed widths are      *)
(*            where its zero-extension rules live)                           *)
(*   fixgrid  the same for fixed point: argument OP float literal (typed by  *)
(*            the library with the first layout that holds it), arguments   *)
(*            of two different layouts                                       *)
(***************************************************************************)
EXTENDS AstLib, FiniteSets, TLC, Json

CONSTANT Family
VARIABLE p

A == Name("a")  B == Name("b")  Cc == Name("c")  U == Name("u")  V == Name("v")  I == Name("i")
I2 == TInt(2)  I4 == TInt(4)
SigI == <<Arg("a", I2), Arg("b", I4), Arg("c", TBool)>>
SigB == <<Arg("a", I2), Arg("b", I2), Arg("c", TBool), Arg("e", TBool)>>
IntE == {A, B, CI(1), CI(3), Bin("Add", A, CI(1)), Bin("BitXor", A, B)}
BoolE == {Cc, Cmp("Gt", A, B), Cmp("Eq", A, CI(2)), Un("Not", Cc), Cmp("LtE", B, CI(5))}
Range(k) == CallN("range", <<CI(k)>>)
RetW == {I2, I4, TInt(8)}

LoopIf == {FunDef("f", SigI, <<Assign("u", e), For("i", Range(k), <<If(Cmp(op, I, CI(c0)), <<Aug("u", aop, g)>>, <<>>)>>), Ret(U)>>, rt) :
             e \in {A, CI(0)}, k \in {3, 4}, op \in {"GtE", "Gt", "LtE", "Lt", "Eq", "NotEq"}, c0 \in {1, 2},
             aop \in {"Add", "BitXor"}, g \in {A, I, Bin("Add", I, A), Bin("Mult", I, A)}, rt \in {I4}}
         \cup {FunDef("f", SigI, <<Assign("u", CB(FALSE)), For("i", Range(3), <<If(Cmp(op, I, CI(1)), <<Assign("u", Bin("BitXor", U, g))>>, <<Assign("u", Un("Not", U))>>)>>), Ret(U)>>, TBool) :
             op \in {"GtE", "Lt", "Eq"}, g \in {Cc, Cmp("Gt", A, I), Cmp("GtE", B, I)}}
Elif == {FunDef("f", SigI, <<Assign("u", e0), If(b1, <<Assign("u", e1)>>, <<If(b2, <<Assign("u", e2)>>, els)>>), Ret(U)>>, rt) :
           e0 \in {A, CI(0)}, b1 \in BoolE, b2 \in BoolE \ {Cc}, e1 \in {B, CI(3)}, e2 \in {Bin("Add", A, CI(1)), CI(1)},
           els \in {<<>>, <<Assign("u", CI(2))>>}, rt \in {I4}}
Nested == {FunDef("f", <<Arg("m", TList(TList(TBool, cols), 2)), Arg("c", TBool)>>,
                  <<Assign("u", x0), For("r", Name("m"), <<For("x", Name("r"), <<Assign("u", Bin(op, U, Name("x")))>>)>>), Ret(U)>>, TBool) :
             cols \in {2, 3}, x0 \in {CB(FALSE), CB(TRUE), Cc}, op \in {"BitXor", "BitAnd", "BitOr"}}
          \cup {FunDef("f", <<Arg("m", TList(TList(I2, 2), 2)), Arg("a", I2)>>,
                  <<Assign("u", CI(0)), For("r", Name("m"), <<For("x", Name("r"), <<Aug("u", op, Name("x"))>>)>>), Ret(U)>>, I4) : op \in {"Add", "BitXor"}}
          \cup {FunDef("f", <<Arg("m", TList(TList(TBool, cols), 2)), Arg("a", I2), Arg("b", I2)>>,
                  <<Ret(Sub(Sub(Name("m"), x), y))>>, TBool) : cols \in {2, 3}, x \in {A, B}, y \in {A, B}}
ListIdx == {FunDef("f", <<Arg("l", TList(T, 3)), Arg("a", I2)>>,
                   <<Assign("u", CI(0)), For("i", Range(3), <<Aug("u", aop, Sub(Name("l"), I))>>), Aug("u", aop, Sub(Name("l"), A)), Ret(U)>>, rt) :
              T \in {I2}, aop \in {"Add", "BitXor", "BitOr"}, rt \in {I2, I4}}
           \cup {FunDef("f", <<Arg("l", TList(TBool, 3)), Arg("a", I2)>>,
                   <<Assign("u", CB(TRUE)), For("x", Name("l"), <<Assign("u", BoolOpN(bop, <<U, Name("x")>>))>>), Ret(BoolOpN("Or", <<U, Sub(Name("l"), A)>>))>>, TBool) :
              bop \in {"And", "Or"}}
SwapUse == {FunDef("f", SigB, <<[T |-> "Assign", targets |-> <<Tup(<<U, V>>)>>, value |-> Tup(<<e1, e2>>)],
                                [T |-> "Assign", targets |-> <<Tup(<<U, V>>)>>, value |-> Tup(<<V, Bin(op, U, V)>>)],
                                Ret(Bin(op2, U, V))>>, rt) :
              e1 \in {A, CI(1)}, e2 \in {B, Bin("Add", A, B)}, op \in {"Add", "BitXor", "Sub"}, op2 \in {"Sub", "BitXor"}, rt \in {I2, I4}}
IfAug == {FunDef("f", SigI, <<Assign("u", e0), Assign("v", A), If(b1, <<Aug("u", aop, g), Assign("v", U)>>, <<Aug("v", "Add", CI(1))>>), Ret(Bin("BitXor", U, V))>>, rt) :
            e0 \in {B, CI(2)}, b1 \in BoolE, aop \in {"Add", "Sub", "BitOr"}, g \in {A, CI(3)}, rt \in {I4, TInt(8)}}

Widths == 2..8
WPairs == {<<x, y>> \in Widths \X Widths : x + y <= 10}
MaxW(x, y) == IF x > y THEN x ELSE y
Arith == {"Add", "Sub", "Mult", "BitAnd", "BitOr", "BitXor"}
Cmps == {"Eq", "NotEq", "Lt", "LtE", "Gt", "GtE"}
Consts == {0, 1, 2, 3, 5, 6, 7, 12}
Sig2(x, y) == <<Arg("a", TInt(x)), Arg("b", TInt(y))>>
Sig1(x) == <<Arg("a", TInt(x))>>
OpGrid ==
  UNION {{FunDef("f", Sig2(w[1], w[2]), <<Ret(Bin(op, A, B))>>, TInt(rw)) : op \in Arith, rw \in {MaxW(w[1], w[2]), 16}} : w \in WPairs}
  \cup {FunDef("f", Sig2(w[1], w[2]), <<Ret(Cmp(op, A, B))>>, TBool) : w \in WPairs, op \in Cmps}
  \cup UNION {{FunDef("f", Sig1(x), <<Ret(Bin(op, A, CI(k)))>>, TInt(rw)) : op \in Arith, k \in Consts, rw \in {x, 12}} : x \in Widths}
  \cup UNION {{FunDef("f", Sig1(x), <<Ret(Bin(op, CI(k), A))>>, TInt(rw)) : op \in {"Add", "Sub", "Mult", "BitXor"}, k \in Consts, rw \in {x, 12}} : x \in Widths}
  \cup {FunDef("f", Sig1(x), <<Ret(Cmp(op, A, CI(k)))>>, TBool) : x \in Widths, op \in Cmps, k \in Consts}
  \cup {FunDef("f", Sig1(x), <<Ret(Cmp(op, CI(k), A))>>, TBool) : x \in Widths, op \in Cmps, k \in Consts}
  \cup UNION {{FunDef("f", Sig1(x), <<Ret(Bin(op, A, CI(k)))>>, TInt(rw)) : op \in {"LShift", "RShift"}, k \in {0, 1, 2, 3}, rw \in {x, 12}} : x \in Widths}
  \cup {FunDef("f", Sig1(x), <<Ret(Bin("Mod", A, CI(k)))>>, TInt(x)) : x \in Widths, k \in {1, 2, 4, 8}}
  \cup UNION {{FunDef("f", Sig1(x), <<Ret(Un(op, A))>>, TInt(rw)) : op \in {"Invert", "USub"}, rw \in {x, 12}} : x \in Widths}
  \cup {FunDef("f", Sig2(w[1], w[2]), <<Ret(Bin(op2, Bin(op, A, B), A))>>, TInt(12)) : w \in {v \in WPairs : v[1] + v[2] <= 8},
            op \in {"Add", "Sub", "BitXor"}, op2 \in {"Add", "Sub", "Mult"}}

\* fixed point: every operator between an argument and a bare float literal (typed by the library with the FIRST
\* layout that holds it, usually not the argument's), and between two arguments of nested layouts
Layouts == {<<1, 2>>, <<2, 2>>, <<1, 3>>, <<2, 3>>}
Floats == {CF(1, 2), CF(1, 4), CF(3, 4), CF(3, 2), CF(1, 1), CF(5, 2), CF(1, 8)}
FSig1(l) == <<Arg("a", TFix(l[1], l[2]))>>
FSig2(l, m) == <<Arg("a", TFix(l[1], l[2])), Arg("b", TFix(m[1], m[2]))>>
FixGrid ==
  UNION {{FunDef("f", FSig1(l), <<Ret(Bin(op, A, k))>>, TFix(l[1], l[2])) : op \in {"Add", "Sub"}, k \in Floats} : l \in Layouts}
  \cup UNION {{FunDef("f", FSig1(l), <<Ret(Bin(op, k, A))>>, TFix(l[1], l[2])) : op \in {"Add", "Sub"}, k \in Floats} : l \in Layouts}
  \cup UNION {{FunDef("f", FSig1(l), <<Ret(Cmp(op, A, k))>>, TBool) : op \in Cmps, k \in Floats} : l \in Layouts}
  \cup UNION {{FunDef("f", FSig1(l), <<Ret(Cmp(op, k, A))>>, TBool) : op \in Cmps, k \in Floats} : l \in Layouts}
  \cup UNION {{FunDef("f", FSig2(lp[1], lp[2]), <<Ret(Bin(op, A, B))>>, TFix(MaxW(lp[1][1], lp[2][1]), MaxW(lp[1][2], lp[2][2]))) : op \in {"Add", "Sub"}}
              \cup {FunDef("f", FSig2(lp[1], lp[2]), <<Ret(Cmp(op, A, B))>>, TBool) : op \in Cmps} : lp \in Layouts \X Layouts}
  \cup UNION {{FunDef("f", FSig1(l), <<Assign("u", A), Aug("u", "Add", k), Ret(IfE(Cmp("Gt", U, k2), U, A))>>, TFix(l[1], l[2])) : k \in Floats, k2 \in {CF(1, 2), CF(3, 2)}} : l \in Layouts}
  \cup UNION {{FunDef("f", FSig1(l), <<Ret(Bin("Mult", CI(k), A))>>, TFix(l[1], l[2])) : k \in 0..3} \cup
              {FunDef("f", FSig1(l), <<Ret(Bin("Mult", A, CI(k)))>>, TFix(l[1], l[2])) : k \in 0..3} : l \in Layouts}
  \* fixed point times an integer VARIABLE / a local holding a constant (only literal factors are supported: anything
  \* else must be rejected, not read as a constant)
  \cup UNION {{FunDef("f", <<Arg("n", TInt(2)), Arg("a", TFix(l[1], l[2]))>>, <<Ret(Bin("Mult", Name("n"), A))>>, TFix(l[1], l[2])),
               FunDef("f", <<Arg("n", TInt(2)), Arg("a", TFix(l[1], l[2]))>>, <<Ret(Bin("Mult", A, Name("n")))>>, TFix(l[1], l[2]))}
              \cup {FunDef("f", FSig1(l), <<Assign("k", CI(k)), Ret(Bin("Mult", Name("k"), A))>>, TFix(l[1], l[2])) : k \in 0..3}
              \cup {FunDef("f", FSig1(l), <<Assign("k", CI(k)), Ret(Bin("Mult", A, Name("k")))>>, TFix(l[1], l[2])) : k \in 0..3} : l \in Layouts}
  \* a fixed point value handed over in ANOTHER layout: returned as a wider / narrower / shifted declared type, passed through a local
  \cup UNION {{FunDef("f", FSig1(lp[1]), <<Ret(A)>>, TFix(lp[2][1], lp[2][2])),
               FunDef("f", FSig1(lp[1]), <<Assign("u", A), Ret(IfE(Cmp("Gt", U, CF(1, 2)), U, A))>>, TFix(lp[2][1], lp[2][2])),
               FunDef("f", FSig1(lp[1]), <<Ret(Bin("Add", A, CF(1, 4)))>>, TFix(lp[2][1], lp[2][2])),
               FunDef("f", <<Arg("a", TFix(lp[1][1], lp[1][2])), Arg("c", TBool)>>, <<Ret(Tup(<<A, Cc>>))>>, TTup(<<TFix(lp[2][1], lp[2][2]), TBool>>))}
              : lp \in {q \in (Layouts \cup {<<3, 2>>, <<1, 4>>}) \X (Layouts \cup {<<3, 2>>, <<1, 4>>}) : q[1] # q[2]}}
\* characters compared with integers and characters of every width class (ord(c) == 10: the literal is a Qint4)
CharGrid ==
  {FunDef("f", <<Arg("c", [t |-> "char", w |-> 8])>>, <<Ret(Cmp(op, Call1("ord", Name("c")), CI(k)))>>, TBool) : op \in {"Eq", "NotEq"}, k \in {0, 3, 10, 42, 97, 200}}
  \cup {FunDef("f", <<Arg("c", [t |-> "char", w |-> 8])>>, <<Ret(Cmp(op, CI(k), Call1("ord", Name("c"))))>>, TBool) : op \in {"Eq", "NotEq"}, k \in {3, 10, 97}}
  \cup {FunDef("f", <<Arg("c", [t |-> "char", w |-> 8]), Arg("d", TInt(w))>>, <<Ret(Cmp(op, Call1("ord", Name("c")), Name("d")))>>, TBool) : op \in {"Eq", "NotEq"}, w \in {2, 4}}
  \cup {FunDef("f", <<Arg("c", [t |-> "char", w |-> 8]), Arg("d", TInt(w))>>, <<Ret(Cmp(op, Name("d"), Call1("ord", Name("c"))))>>, TBool) : op \in {"Eq", "NotEq"}, w \in {2, 4}}

\* if statements whose TEST VARIABLE is written inside the statement (the branches are guarded by the value the test
\* had at entry): bare-name tests, argument or local, re-assigned first / last / in the else branch; take-while loops
G == Name("go")  N == Name("n")
GoInit == {Cc, Cmp("Gt", A, B), Name("e")}
GoNext == {Name("e"), Un("Not", G), Cmp("Eq", A, CI(2)), CB(FALSE)}
Upd == {Aug("n", "Add", CI(1)), Assign("n", B), Aug("n", "BitXor", A)}
IfTest ==
  {FunDef("f", SigB, <<Assign("go", g0), Assign("n", CI(0)), If(G, body, els), Ret(N)>>, I4) :
      g0 \in GoInit, els \in {<<>>, <<Assign("n", A)>>, <<Assign("go", Name("e")), Assign("n", CI(3))>>},
      body \in UNION {{<<Assign("go", g1), u>>, <<u, Assign("go", g1)>>, <<Assign("go", g1), u, Aug("n", "Add", CI(1))>>} : g1 \in GoNext, u \in Upd}}
  \cup {FunDef("f", SigB, <<Assign("n", CI(0)), If(Cc, <<Assign("c", g1), u>>, els), Ret(IfE(Cc, N, Bin("Add", N, CI(1))))>>, I4) :
      g1 \in {Name("e"), Un("Not", Cc), CB(FALSE)}, u \in Upd, els \in {<<>>, <<Assign("n", A)>>}}
  \cup {FunDef("f", <<Arg("l", TList(TBool, 3)), Arg("a", I2), Arg("c", TBool)>>,
               <<Assign("go", g0), Assign("n", CI(0)), For("i", Range(3), <<If(G, <<Assign("go", Sub(Name("l"), I)), u>>, <<>>)>>), Ret(N)>>, I4) :
      g0 \in {Cc, CB(TRUE)}, u \in {Aug("n", "Add", CI(1)), Aug("n", "Add", A)}}
  \cup {FunDef("f", SigB, <<Assign("go", g0), Assign("v", Name("e")), If(G, <<Assign("go", g1), Assign("v", BoolOpN("And", <<V, G>>))>>, <<Assign("v", Un("Not", V))>>), Ret(BoolOpN("Or", <<V, G>>))>>, TBool) :
      g0 \in GoInit, g1 \in GoNext}
\* tuple-typed LOCAL variables: an alias of a tuple argument / a tuple display, then element access, a second alias,
\* the whole value, comparison, an element chosen by an if-expression (the bits of a local are named after its TYPE)
TupTypes == {TTup(<<I2, I2>>), TTup(<<I2, TBool>>), TTup(<<TBool, I2>>), TTup(<<TBool, TBool>>), TTup(<<TTup(<<TBool, TBool>>), I2>>),
             TTup(<<I2, TBool, I2>>), TTup(<<TBool, TTup(<<I2, TBool>>)>>)}
T0 == Name("t")
TupInit(T) == {T0, Tup([k \in 1..Len(T.elts) |-> Sub(T0, CI(k - 1))])}
TSig(T, sp) == <<IF sp THEN ArgT("t", T) ELSE Arg("t", T), Arg("c", TBool)>>
TupVar ==
  UNION {UNION {UNION {
       {FunDef("f", TSig(T, sp), <<Assign("u", e0), Ret(Sub(U, CI(k - 1)))>>, T.elts[k]) : k \in 1..Len(T.elts)}
       \cup {FunDef("f", TSig(T, sp), <<Assign("u", e0), Ret(U)>>, T)}
       \cup {FunDef("f", TSig(T, sp), <<Assign("u", e0), Assign("v", U), Ret(Sub(V, CI(k - 1)))>>, T.elts[k]) : k \in 1..Len(T.elts)}
       \cup {FunDef("f", TSig(T, sp), <<Assign("u", e0), Ret(Cmp(op, U, T0))>>, TBool) : op \in {"Eq", "NotEq"}}
       \cup {FunDef("f", TSig(T, sp), <<Assign("u", e0), Ret(IfE(Cc, Sub(U, CI(k - 1)), Sub(T0, CI(Len(T.elts) - k))))>>, T.elts[k]) :
               k \in {j \in 1..Len(T.elts) : T.elts[j] = T.elts[Len(T.elts) + 1 - j]}}
       \cup {FunDef("f", TSig(T, sp), <<Assign("u", e0), If(Cc, <<Assign("u", T0)>>, <<>>), Ret(Sub(U, CI(k - 1)))>>, T.elts[k]) : k \in 1..Len(T.elts)}
     : e0 \in TupInit(T)} : T \in TupTypes} : sp \in BOOLEAN}

\* names that collide with the synthesiser's own naming schemes (ancillas anc_<n>, the shared constant qubits TRUE / FALSE, return bits _ret...):
\* arguments and locals so called, in expressions that need ancillas and constants
NmS == {"anc_0", "anc_1", "TRUE", "FALSE", "_retv"}
NmForms(x, y, z) == {Cmp("NotEq", BoolOpN("And", <<x, y>>), y), BoolOpN("Or", <<BoolOpN("And", <<x, y>>), BoolOpN("And", <<Un("Not", x), z>>)>>),
                     Bin("BitXor", BoolOpN("And", <<x, y>>), BoolOpN("And", <<y, z>>)), IfE(x, y, Un("Not", z)),
                     BoolOpN("And", <<BoolOpN("Or", <<x, y>>), BoolOpN("Or", <<y, z>>), Un("Not", BoolOpN("And", <<x, z>>))>>)}
Names ==
  UNION {LET n1 == nn[1]  n2 == nn[2] IN
         {FunDef("f", <<Arg(n1, TBool), Arg(n2, TBool), Arg("c", TBool)>>, <<Ret(e)>>, TBool) : e \in NmForms(Name(n1), Name(n2), Cc)}
         \cup {FunDef("f", <<Arg(n1, TBool), Arg(n2, TBool), Arg("c", TBool)>>, <<Ret(Tup(<<e, e2>>))>>, TTup(<<TBool, TBool>>)) :
                 e \in NmForms(Name(n1), Name(n2), Cc), e2 \in {CB(TRUE), CB(FALSE), Name(n2)}}
         \cup {FunDef("f", <<Arg("a", TBool), Arg(n2, TBool), Arg("c", TBool)>>, <<Assign(n1, e0), If(Cc, <<Assign(n1, e)>>, <<>>), Ret(BoolOpN("And", <<Name(n1), Name(n2)>>))>>, TBool) :
                 e0 \in {CB(TRUE), CB(FALSE), Name(n2)}, e \in NmForms(Name("a"), Name(n2), Cc)}
         \cup {FunDef("f", <<Arg(n1, I2), Arg(n2, TBool)>>, <<Ret(IfE(Name(n2), Bin(op, Name(n1), CI(1)), Name(n1)))>>, I2) : op \in {"Add", "Mult"}}
        : nn \in {x \in (NmS \cup {"b"}) \X (NmS \cup {"b"}) : x[1] # x[2]}}

\* what the constant folder folds: the loop variable (a literal after unrolling) under every foldable operator, unary
\* operator, comparison, builtin and constant-list lookup, the folded value then combined with an argument
Li(es) == [T |-> "List", elts |-> es]
FoldE == {Bin(op, I, CI(k)) : op \in {"Add", "Sub", "Mult", "FloorDiv", "Mod", "Pow", "LShift", "RShift", "BitOr", "BitXor", "BitAnd"}, k \in {1, 2, 3}}
         \cup {Bin(op, CI(k), I) : op \in {"Sub", "LShift", "RShift", "Pow"}, k \in {3, 5}}
         \cup {Bin("Add", Un("USub", I), CI(3)), Bin("BitAnd", Un("Invert", I), CI(3)), Un("UAdd", I),
               Bin("Mod", Bin("Add", Bin("Mult", I, CI(2)), CI(1)), CI(3)), Bin("FloorDiv", Bin("Add", I, CI(1)), CI(2))}
         \cup {CallN(f, <<I, CI(k)>>) : f \in {"min", "max"}, k \in {1, 2}}
         \cup {Call1("sum", Li(<<I, CI(1), I>>)), Call1("len", Li(<<I, I>>)), Call1("max", Li(<<I, CI(1)>>)), Call1("min", Tup(<<I, CI(2)>>)),
               Sub(Li(<<CI(2), CI(0), CI(3), CI(1)>>), I), Sub(Li(<<CI(1), CI(3), CI(0), CI(2)>>), Bin("Mod", Bin("Add", I, CI(1)), CI(4)))}
FoldB == {Cmp(op, Bin("Mod", I, CI(2)), CI(k)) : op \in {"Eq", "NotEq", "Lt", "LtE", "Gt", "GtE"}, k \in {0, 1}}
         \cup {Un("Not", Cmp("Gt", I, CI(1))), BoolOpN("And", <<Cmp("Gt", I, CI(0)), Cmp("Lt", I, CI(3))>>), BoolOpN("Or", <<Cmp("Eq", I, CI(0)), Cmp("Eq", I, CI(3))>>),
               Call1("any", Li(<<Cmp("Gt", I, CI(2)), CB(FALSE)>>)), Call1("all", Li(<<Cmp("Gt", I, CI(0)), CB(TRUE)>>)),
               Cmp("Gt", Bin("FloorDiv", I, CI(2)), CI(0)), Cmp("Eq", Bin("Pow", I, CI(2)), CI(4))}
ConstFold ==
  {FunDef("f", SigI, <<Assign("u", CI(0)), For("i", Range(4), <<Aug("u", aop, Bin(op2, A, e))>>), Ret(U)>>, rt) :
       e \in FoldE, aop \in {"Add", "BitXor"}, op2 \in {"Add", "BitXor", "Mult"}, rt \in {I4}}
  \cup {FunDef("f", SigI, <<Assign("u", CI(0)), For("i", Range(4), <<Aug("u", "Add", e)>>), Ret(Bin("Add", U, B))>>, rt) : e \in FoldE, rt \in {I4, TInt(8)}}
  \cup {FunDef("f", SigI, <<Assign("u", A), For("i", Range(4), <<If(t, <<Aug("u", "Add", g)>>, els)>>), Ret(U)>>, I4) :
       t \in FoldB, g \in {I, B}, els \in {<<>>, <<Aug("u", "BitXor", CI(1))>>}}
  \cup {FunDef("f", SigI, <<Assign("u", CI(0)), For("i", Range(4), <<Aug("u", "Add", IfE(t, A, Bin("Add", B, I)))>>), Ret(U)>>, I4) : t \in FoldB}
  \cup {FunDef("f", SigI, <<Assign("u", CB(FALSE)), For("i", Range(4), <<Assign("u", Bin("BitXor", U, BoolOpN(bop, <<t, Cc>>)))>>), Ret(U)>>, TBool) :
       t \in FoldB, bop \in {"And", "Or"}}
  \cup {FunDef("f", <<Arg("l", TList(I2, 4)), Arg("a", I2)>>, <<Assign("u", CI(0)), For("i", Range(4), <<Aug("u", "Add", Sub(Name("l"), e))>>), Ret(U)>>, I4) :
       e \in {Bin("FloorDiv", I, CI(2)), Bin("Mod", Bin("Add", I, CI(1)), CI(4)), Bin("Sub", CI(3), I), Bin("BitXor", I, CI(1)), Bin("RShift", I, CI(1)),
              CallN("min", <<I, CI(2)>>), Sub(Li(<<CI(3), CI(2), CI(1), CI(0)>>), I)}}

\* a subscript index held in a VARIABLE: assigned a literal unconditionally, in one or both branches of an if, by an
\* augmented assignment, or inside a loop (the arg-max idiom); negative constant indices (Python: from the end)
IdxBases == {[arg |-> ArgT("t", TTup(<<I2, I2, I2>>)), rt |-> I2], [arg |-> Arg("t", TList(TBool, 3)), rt |-> TBool], [arg |-> Arg("t", TList(I2, 3)), rt |-> I2],
             [arg |-> ArgT("t", TTup(<<I2, I4, I2>>)), rt |-> I4]}
J == Name("j")
IdxVar ==
  UNION {LET sg == <<bs.arg, Arg("c", TBool), Arg("a", I2)>> IN
     {FunDef("f", sg, <<Assign("i", CI(k0)), If(Cc, <<Assign("i", CI(k1))>>, <<>>), Ret(Sub(T0, I))>>, bs.rt) : k0 \in 0..2, k1 \in 0..2}
     \cup {FunDef("f", sg, <<If(Cc, <<Assign("i", CI(k1))>>, <<Assign("i", CI(k2))>>), Ret(Sub(T0, I))>>, bs.rt) : k1 \in 0..2, k2 \in 0..2}
     \cup {FunDef("f", sg, <<Assign("i", CI(k0)), Ret(Sub(T0, I))>>, bs.rt) : k0 \in 0..2}
     \cup {FunDef("f", sg, <<Assign("i", CI(k0)), Aug("i", "Add", CI(1)), Ret(Sub(T0, I))>>, bs.rt) : k0 \in 0..1}
     \cup {FunDef("f", sg, <<Assign("i", CI(0)), For("k", Range(2), <<If(Cc, <<Assign("i", Name("k"))>>, <<>>)>>), Ret(Sub(T0, I))>>, bs.rt)}
     \cup {FunDef("f", sg, <<Assign("i", CI(0)), For("k", Range(3), <<Assign("i", Name("k"))>>), Ret(Sub(T0, I))>>, bs.rt)}
     \cup {FunDef("f", sg, <<Ret(Sub(T0, Un("USub", CI(k))))>>, bs.rt) : k \in 1..3}
     \cup {FunDef("f", sg, <<Assign("i", CI(k0)), If(Cc, <<Assign("i", CI(k1))>>, <<>>), Ret(Bin("Add", A, Sub(Li(<<CI(1), CI(3), CI(0)>>), I)))>>, I4) : k0 \in 0..2, k1 \in 0..2}
     : bs \in IdxBases}
  \cup {FunDef("f", <<Arg("l", TList(I2, 3)), Arg("c", TBool)>>,
                <<Assign("j", CI(0)), For("i", CallN("range", <<CI(1), CI(3)>>), <<If(Cmp(op, Sub(Name("l"), I), Sub(Name("l"), J)), <<Assign("j", I)>>, <<>>)>>), Ret(r)>>, I2) :
           op \in {"Gt", "Lt"}, r \in {Sub(Name("l"), J), J}}

Pool == CASE Family = "loopif" -> LoopIf [] Family = "elif" -> Elif [] Family = "nested" -> Nested
          [] Family = "listidx" -> ListIdx [] Family = "swapuse" -> SwapUse [] Family = "ifaug" -> IfAug
          [] Family = "iftest" -> IfTest
          [] Family = "opgrid" -> OpGrid
          [] Family = "fixgrid" -> FixGrid
          [] Family = "chargrid" -> CharGrid
          [] Family = "tupvar" -> TupVar
          [] Family = "names" -> Names
          [] Family = "constfold" -> ConstFold
          [] Family = "idxvar" -> IdxVar
Init == p \in Pool
Next == FALSE /\ p' = p
Spec == Init /\ [][Next]_p
Emit == PrintT(<<"P", ToJson(p)>>)
=============================================================================

----------------------------- MODULE Trace_Oracle -----------------------------
(***************************************************************************)
(* Used by bin/selftest only: print what the contract operators compute so  *)
(* that independent engines can be compared with them.                      *)
(*   kind "qsim":  gates, nq  -> for every basis state b the final state     *)
(*                 <<b, k, << <<index, amplitude>> ... >> >> (ring C)         *)
(*   kind "pysem": def, fns   -> for every input row <<row, status, value,   *)
(*                 det>> of the reference interpreter                        *)
(***************************************************************************)
EXTENDS PySem, QSim, TLC, Json, IOUtils

Cases == JsonDeserialize(IOEnv.CASES)
VARIABLE i

SetSeq(S) == LET RECURSIVE F(_) F(T) == IF T = {} THEN <<>> ELSE LET m == CHOOSE m \in T : \A y \in T : m <= y IN <<m>> \o F(T \ {m}) IN F(S)
NoParams == [x \in {} |-> 0]

Out(c) ==
  IF c.kind = "qsim" THEN
     [b \in 1..Q2(c.nq) |->
        LET s == RunQ("C", c.gates, BasisState("C", b - 1))
            idx == SetSeq(DOMAIN s.amp)
        IN <<b - 1, s.k, [j \in 1..Len(idx) |-> <<idx[j], s.amp[idx[j]]>>]>>]
  ELSE
     [r \in 1..P2(NumInputBits(c.def)) |->
        LET x == RunRow(c.def, c.fns, r - 1, NoParams) IN
        IF x.st # "ok" THEN <<r - 1, x.st, 0, 0>>
        ELSE IF x.t.t = "tuple" THEN <<r - 1, "tuple", 0, 0>>
        ELSE <<r - 1, "ok", IF x.t.t = "bool" THEN (IF x.v THEN 1 ELSE 0) ELSE x.v, x.det>>]

Init == i = 1
Next == /\ i <= Len(Cases)
        /\ PrintT(<<"V", Cases[i].id, Out(Cases[i])>>)
        /\ i' = i + 1
Spec == Init /\ [][Next]_i
=============================================================================

------------------------------- MODULE DecOpt -------------------------------
(***************************************************************************)
(* Refinement layer: the splice logic of circuit_boolean_optimizer          *)
(* (qlasskit/decompiler/decopt.py).  The sections come from the decompiler  *)
(* (Decompile.tla), are walked in REVERSE order, and for each one the       *)
(* simplified expressions are re-synthesised (sympy's simplify_logic and    *)
(* the synthesiser are recorded, not modelled here: hook do.section).       *)
(* What this module transcribes is the decision and the surgery:            *)
(*   Accept   the re-synthesis did not raise, has no more gates than the    *)
(*            section, touches only qubits the section touched, and left    *)
(*            every symbol on its qubit (no result moved by relabelling)    *)
(*   Splice   gates[s .. e) := new gates, with the indices of the ORIGINAL  *)
(*            list (valid because the walk is from the last section back)   *)
(* A record r of a visited section: s, e (index range), ngates (gates in    *)
(* the section), secq (its qubits), raised, new (the re-synthesised gates), *)
(* used (their qubits), qmap / qmapnew (symbol -> qubit before / after).    *)
(***************************************************************************)
EXTENDS Integers, Sequences, FiniteSets

Relabelled(r) == \E n \in DOMAIN r.qmap : n \notin DOMAIN r.qmapnew \/ r.qmapnew[n] # r.qmap[n]
Accept(r) ==
  /\ ~r.raised
  /\ Len(r.new) <= r.ngates
  /\ r.used \subseteq r.secq
  /\ ~Relabelled(r)
SpliceOne(gates, r) == SubSeq(gates, 1, r.s) \o r.new \o SubSeq(gates, r.e + 1, Len(gates))
\* recs in the order visited (last section first)
RECURSIVE Splice(_, _, _)
Splice(gates, recs, k) ==
  IF k > Len(recs) THEN gates
  ELSE Splice(IF Accept(recs[k]) THEN SpliceOne(gates, recs[k]) ELSE gates, recs, k + 1)
\* the visiting order is sound for index-based surgery: ranges disjoint and descending
OrderOK(recs) == \A k \in 1..(Len(recs) - 1) : recs[k + 1].e <= recs[k].s
=============================================================================

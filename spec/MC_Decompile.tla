----------------------------- MODULE MC_Decompile -----------------------------
(***************************************************************************)
(* Model checking of the transcribed scanner (Decompile.tla): every gate    *)
(* string that GateGen can build is a state; in every state the sections    *)
(* the scanner reports must satisfy the structural clauses of C11:          *)
(*   Covers    the non-barrier gates in [s, e) are classical, there are n   *)
(*             of them, and gate e-1 ... no classical gate of the run lies  *)
(*             outside the range                                            *)
(*   Maximal   the nearest non-barrier gate before s / from e on is not     *)
(*             classical                                                    *)
(*   Partition every classical gate lies in exactly one range               *)
(***************************************************************************)
EXTENDS GateGen, Decompile

NonBarIn(gs, a, b) == {j \in (a + 1)..b : ~IsNopG(gs[j])}            \* 1-based positions of non-barrier gates in [a, b)
SecOK(gs, sec) ==
  /\ 0 <= sec.s /\ sec.s < sec.e /\ sec.e <= Len(gs)
  /\ \A j \in NonBarIn(gs, sec.s, sec.e) : IsZB(gs[j])
  /\ Cardinality(NonBarIn(gs, sec.s, sec.e)) = sec.n
  /\ LET before == NonBarIn(gs, 0, sec.s) IN before # {} => ~IsZB(gs[CHOOSE j \in before : \A k \in before : k <= j])
  /\ LET after == NonBarIn(gs, sec.e, Len(gs)) IN after # {} => ~IsZB(gs[CHOOSE j \in after : \A k \in after : j <= k])
ScannerOK ==
  LET secs == Sections(s) IN
  /\ \A k \in 1..Len(secs) : SecOK(s, secs[k])
  /\ \A j \in 1..Len(s) : IsZB(s[j]) => Cardinality({k \in 1..Len(secs) : secs[k].s < j /\ j <= secs[k].e}) = 1
=============================================================================

"""Recording stand-in for the pyqubo package (which is not installed in this sandbox and cannot be fetched).
It implements only the surface qlasskit/bqm.py uses and builds nothing but the TREE of what it was handed;
the meaning of that tree (its polynomial and energies) is defined in /verif/spec/Trace_C18.tla.
This directory is appended to sys.path by the /verif harness only; it is never imported by the library's
own tests."""

__verif_stub__ = True


class Node:
    def __init__(self, k, **kw):
        self.k = k
        self.kw = kw

    def __add__(self, other):
        return Node("add", terms=[self, wrap(other)])

    __radd__ = lambda self, other: Node("add", terms=[wrap(other), self])

    def to_json(self):
        d = {"k": self.k}
        for key, v in self.kw.items():
            if isinstance(v, Node):
                d[key] = v.to_json()
            elif isinstance(v, list):
                d[key] = [x.to_json() for x in v]
            else:
                d[key] = v
        return d

    def compile(self, strength=5.0):
        return Model(self)


def wrap(x):
    if isinstance(x, Node):
        return x
    if isinstance(x, bool):
        return Node("const", v=1 if x else 0)
    if isinstance(x, (int, float)):
        return Node("const", v=int(x))
    raise TypeError(f"pyqubo stand-in: cannot use {x!r}")


def Binary(label):
    return Node("bin", n=str(label))


def Not(a):
    return Node("not", a=wrap(a))


def And(a, b):
    return Node("and", a=wrap(a), b=wrap(b))


def Or(a, b):
    return Node("or", a=wrap(a), b=wrap(b))


def Xor(a, b):
    return Node("xor", a=wrap(a), b=wrap(b))


def NotConst(a, b, label):
    return Node("notconst", a=wrap(a), b=wrap(b), label=str(label))


def AndConst(a, b, c, label):
    return Node("andconst", a=wrap(a), b=wrap(b), c=wrap(c), label=str(label))


def OrConst(a, b, c, label):
    return Node("orconst", a=wrap(a), b=wrap(b), c=wrap(c), label=str(label))


def XorConst(a, b, c, label):
    return Node("xorconst", a=wrap(a), b=wrap(b), c=wrap(c), label=str(label))


class DecodedSample:
    def __init__(self, sample, energy):
        self.sample = sample
        self.energy = energy


class Model:
    def __init__(self, tree):
        self.tree = tree

    def to_bqm(self):
        return ("bqm", self.tree.to_json())

    def to_ising(self):
        return ("ising", self.tree.to_json())

    def to_qubo(self):
        return ("qubo", self.tree.to_json())

    def decode_sampleset(self, sampleset):
        return [DecodedSample(dict(s), 0.0) for s in sampleset]

#!/bin/sh
# apply a seeded change to /repo, run the named checks (quick tier), undo it.  usage: try_seed.sh C11-1 C11 [C12 ...]
seed="$1"; shift
cd /verif
git -C /repo apply /verif/seeded/$seed/patch.diff || { echo "APPLY FAILED $seed"; exit 2; }
for c in "$@"; do
  ./check $c --tier quick > /tmp/try_$seed_$c.log 2>&1; rc=$?
  echo "seed=$seed check=$c rc=$rc violations=$(grep -c '^VIOLATION' /tmp/try_$seed_$c.log) $(grep -m1 'clause=' /tmp/try_$seed_$c.log | cut -c1-160)"
done
git -C /repo checkout -- . ; git -C /repo status --short | head -3

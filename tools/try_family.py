#!/venv/bin/python
"""development aid: judge every program of one TemplGen family through C01's machinery (both optimizers).
usage: tools/try_family.py <family> [max]"""
import json, sys, collections
sys.path.insert(0, "/verif")
from harness import tlc, render
from harness.common import Scratch
from harness.artefact import run_jobs
from harness.report import Report
from harness.drivers import c01
fam = sys.argv[1]; mx = int(sys.argv[2]) if len(sys.argv) > 2 else 10**9
with Scratch("tryfam") as sc:
    cfg = f"SPECIFICATION Spec\nCONSTANT Family = \"{fam}\"\nINVARIANT Emit\nCHECK_DEADLOCK FALSE\n"
    r = tlc.run_model("TemplGen", cfg, sc, workers=4, timeout=600, tags=("P",), heap="4g")
    srcs = sorted({render.source(json.loads(v[1])) for v in r["prints"]["P"]})[:mx]
    print("programs", len(srcs))
    results = run_jobs(c01.translate_job, [{"src": s, "origin": fam, "timeout": 30} for s in srcs])
    st = collections.Counter(x["status"] for x in results)
    print(st)
    for x in results:
        if x["status"] == "rejected":
            print("REJ", x["exc"], "|", x["src"].replace("\n", " ; ")[:150])
    rep = Report("C01", "translation_validation")
    cov, vst = c01.judge("C01", rep, results, sc)
    print(vst, cov["skipped_unmodelled"])
    seen = set()
    for case, clause, detail in rep.violations:
        if case["src"] in seen: continue
        seen.add(case["src"])
        print("FAIL", clause, detail[:300])
    print("failing programs", len(seen))

#!/venv/bin/python
"""Run the repository's pinned suite with the hook guard off and compare with /root/.vp/BASELINE.json:
every test of stable_pass must pass.  usage: tools/baseline.py [repo]"""
import json, os, subprocess, sys, tempfile, xml.etree.ElementTree as ET
repo = sys.argv[1] if len(sys.argv) > 1 else "/repo"
base = json.load(open("/root/.vp/BASELINE.json"))
fd, xmlp = tempfile.mkstemp(suffix=".xml", dir="/verif/out"); os.close(fd)
env = {k: v for k, v in os.environ.items() if k != "QLASSKIT_VERIF"}
subprocess.run(["/venv/bin/python", "-m", "pytest", "-q", "-p", "no:cacheprovider", "--timeout=900",
                "--continue-on-collection-errors", "--junitxml=" + xmlp], cwd=repo, env=env,
               stdout=subprocess.DEVNULL, stderr=subprocess.DEVNULL)
ok = set()
for tc in ET.parse(xmlp).getroot().iter("testcase"):
    if not any(c.tag in ("failure", "error", "skipped") for c in tc):
        ok.add(tc.get("classname") + "::" + tc.get("name"))
os.unlink(xmlp)
missing = [t for t in base["stable_pass"] if t not in ok]
print(f"stable_pass {len(base['stable_pass'])}  passing now {len(ok)}  missing {len(missing)}")
for t in missing[:40]:
    print("  MISSING", t)
sys.exit(1 if missing else 0)

"""pytest plugin (one-off corpus builder, not part of any check): record the source text of every
QlassF.from_function call made by the repository's own tests.  Usage:
  cd /repo && HARVEST_OUT=/verif/corpus/tests.jsonl /venv/bin/python -m pytest -q -p no:cacheprovider -p harvest_plugin ...
with PYTHONPATH containing /verif/tools."""
import inspect, json, os, textwrap
import qlasskit.qlassfun as qf

_orig = qf.QlassF.from_function
LOG = open(os.environ["HARVEST_OUT"], "a")

def wrapped(f, types=[], defs=[], to_compile=True, compiler="internal", bool_optimizer=None, uncompute=True, **k):
    src = f if isinstance(f, str) else None
    if src is None:
        try:
            src = textwrap.dedent(inspect.getsource(f))
        except Exception:
            src = None
    ok = True
    try:
        kw = dict(k)
        if bool_optimizer is not None:
            kw["bool_optimizer"] = bool_optimizer
        return _orig(f, types, defs, to_compile, compiler, uncompute=uncompute, **kw)
    except Exception:
        ok = False
        raise
    finally:
        LOG.write(json.dumps({"src": src, "ok": ok, "str": isinstance(f, str), "ntypes": len(types),
                              "types": [t.__name__ for t in types],
                              "ndefs": len(defs), "compiler": compiler}) + "\n")
        LOG.flush()

qf.QlassF.from_function = staticmethod(wrapped)

#!/bin/sh
# copy a confirmed seeded change out of its scratch worktree and remove the worktree
# usage: collect_seed.sh <worktree> <name e.g. C09-7>
wt="$1"; n="$2"; d=/verif/seeded/$n
mkdir -p $d && cp $wt/patch.diff $wt/demo.py $wt/meta.json $wt/confirm.txt $d/ && git -C /repo worktree remove --force $wt && echo "collected $n"

#!/bin/sh
# run every check (quick tier) and summarise; usage: tools/run_all.sh [ids...]
cd "$(dirname "$0")/.." || exit 2
ids="$@"; [ -z "$ids" ] && ids="C01 C02 C03 C04 C05 C06 C07 C08 C09 C10 C11 C12 C13 C14 C15 C16 C17 C18"
for c in $ids; do
  s=$(date +%s); ./check $c --tier quick > /tmp/all_$c.log 2>&1; rc=$?; e=$(date +%s)
  echo "$c rc=$rc wall=$((e-s))s violations=$(grep -c '^VIOLATION' /tmp/all_$c.log) known=$(grep -c '^KNOWN-FINDING' /tmp/all_$c.log)"
done

#!/bin/sh
# for every seeded change (or those named on the command line): demo on the clean tree, apply, demo again, run the
# owning check (quick tier), undo
cd "$(dirname "$0")/.." || exit 2
names="$@"; [ -z "$names" ] && names=$(ls seeded | grep -v RESULTS)
for n in $names; do
  p=$(echo $n | cut -d- -f1)
  (cd /repo && timeout 600 /venv/bin/python /verif/seeded/$n/demo.py > /dev/null 2>&1); d0=$?
  git -C /repo apply /verif/seeded/$n/patch.diff || { echo "$n APPLY-FAILED"; continue; }
  (cd /repo && timeout 600 /venv/bin/python /verif/seeded/$n/demo.py > /dev/null 2>&1); d1=$?
  ./check $p --tier quick > /tmp/seed_$n.log 2>&1; rc=$?
  git -C /repo checkout -- .
  echo "$n demo_clean=$d0 demo_patched=$d1 check=$p rc=$rc violations=$(grep -c '^VIOLATION' /tmp/seed_$n.log) first=$(grep -m1 'clause=' /tmp/seed_$n.log | cut -c1-140)"
done
git -C /repo status --short | head -3

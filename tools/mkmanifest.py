#!/usr/bin/env python3
"""Write /verif/MANIFEST.json (kept in a script so that the per-check texts stay in one reviewable place)."""
import json
import subprocess

HOOK_COMMITS = subprocess.run(["git", "-C", "/repo", "log", "--format=%H", "--grep=^verif hooks"], capture_output=True,
                              text=True).stdout.split()

C = {}


def check(pid, category, text, note, technique, design_ref, engine):
    C[pid] = {
        "property_id": pid,
        "quick_cmd": f"./check {pid} --tier quick",
        "thorough_cmd": f"./check {pid} --tier thorough",
        "evidence_file": f"/verif/evidence/{pid}.json",
        "replay_cmd_template": f"./check {pid} --replay {{path}}",
        "engine": engine,
        "level_claimed": {"category": category, "text": text, "design_ref": design_ref},
        "level_note": note,
        "technique": technique,
    }


TB = ("TLC evaluating the TLA+ contract layer in /verif/spec; harness serialisers (harness/ser.py, pyast.py, render.py) "
      "and, where named, the per-target readers")

check("C01", "translation_validation",
      "Every explored program (repository test corpus + programs enumerated/sampled by TLC from spec/ProgGen.tla) is translated by the real "
      "library under both optimizer profiles; TLC runs the reference interpreter spec/PySem.tla on EVERY input row and compares every "
      "return bit that wrap-around arithmetic determines with the row sets of the library's expression list (spec/BoolSem.tla).",
      TB + "; typing rules in PySem transcribe the documentation; a few constructs are skipped as unmodelled (counted in the evidence); refinement bindings in the same run: spec/BitBlast.tla (operators), spec/AstPasses.tla (ReplaceMultiTargetAssign), spec/Trace_Passes.tla (every pass keeps the meaning)",
      "TLA+ reference interpreter (PySem) evaluated by TLC on all inputs of TLC-generated programs", "DESIGN.md 5 C01", "pysem")
check("C02", "model_checking",
      "Every compile (program x {default, fast} x {uncompute on, off}) is recorded; TLC runs the recorded gate list on all 2^n inputs at once "
      "(row-set valuation, spec/Circuit.tla) and compares every output qubit with the row set of its return expression. The transcribed "
      "synthesis algorithm (spec/Synth.tla) is replayed against the hook events of the same compiles and must predict the recorded circuit "
      "gate for gate (refinement binding; also classifies failures).",
      TB + "; hook events qe.getfree / ic.operands", "trace validation of recorded compiles against TLA+ circuit semantics + refinement model of the synthesiser",
      "DESIGN.md 5 C02", "artefact")
check("C03", "model_checking",
      "Same recorded compiles with uncompute=True: TLC checks on all inputs that argument qubits are unchanged and every qubit outside "
      "input/output lists is zero; failures are attributed to the known unsound uncomputation scheme only when spec/Synth.tla reproduces the "
      "circuit exactly and itself reports the unsound step.",
      TB, "trace validation against TLA+ circuit semantics + refinement model (Synth.tla)", "DESIGN.md 5 C03", "artefact")
check("C04", "model_checking",
      "TLC enumerates all boolean trees up to a token bound (spec/ExprGen.tla) and the neighbourhood of every rewrite rule (spec/PatGen.tla); "
      "each optimizer step alone, each step in profile order and each whole profile is applied by the real library to every tree/list "
      "(plus front-end lists and the cnf step inside translate_ast) and TLC compares pre/post on all assignments.",
      TB, "TLC-enumerated expression universes + TLC-judged recorded rewrite steps", "DESIGN.md 5 C04", "boolopt")
check("C05", "translation_validation",
      "For every compiled program and EVERY argument valuation: the string returned by encode_input is compared with Codec.Enc, the recorded "
      "circuit is run by TLC from that string, the reported output qubits are read in reported order, and the recorded decode_output table is "
      "compared with the reference value (PySem); qubit lists, shared output qubits and decode_counts are checked too.",
      TB, "TLA+ codec + circuit + reference interpreter evaluated by TLC on all argument values", "DESIGN.md 5 C05", "pysem")
check("C06", "model_checking",
      "Recorded compiles of bool-returning programs: TLC runs the circuit with one extra symbolic input y as the initial value of the output "
      "qubit and checks output = y xor f(x), inputs intact, scratch zero, on all (x, y).",
      TB, "trace validation against TLA+ circuit semantics with symbolic initial output", "DESIGN.md 5 C06", "artefact")
check("C07", "translation_validation",
      "All (callee, caller) pairs of spec/PairGen.tla (argument shapes x naming clashes x binding routes defs=/inline/oraclize) are compiled by "
      "the real library; TLC evaluates the caller with PySem applying the callee's source to the actual values, on all inputs, and checks the "
      "callee object's fingerprint is unchanged.",
      TB, "TLC-enumerated pairs + TLA+ reference interpreter", "DESIGN.md 5 C07", "pysem")
check("C08", "translation_validation",
      "All bind histories up to a length (spec/ParamGen.tla) over parameterised programs are replayed on one unbound object; every bound result "
      "is compared by TLC with PySem run with the parameters as literals, on all inputs; the unbound object's ast dump must not change and "
      "re-binding the same values must give the same list.",
      TB, "TLC-enumerated bind histories + TLA+ reference interpreter", "DESIGN.md 5 C08", "pysem")
check("C09", "exploration",
      "Exhaustive: every bit pattern of every shipped Qint/Qfixed/Qchar type through from_bool/to_bool/to_bin/from_bin/const/to_amplitudes, all "
      "integer literals 0..65535, dyadic float literals, all 1-char strings, all patterns of sampled nested tuple types; each logged field is "
      "compared by TLC with spec/Codec.tla.",
      TB + "; quick tier logs the amplitude vector of the 16-bit type for every 13th pattern only", "exhaustive enumeration judged by TLC against a TLA+ codec", "DESIGN.md 5 C09", "codec")
check("C10", "model_checking",
      "TLC enumerates API histories (spec/Session.tla) over a pool of programs chosen for interference; each history runs in a fresh "
      "interpreter, every term also runs alone in another; spec/Trace_C10.tla checks that no step changes a live object's fingerprint, that "
      "each result equals the result alone, and that a step raises iff it raises alone.",
      TB + "; a process forked from a parent that only imported the library counts as a fresh interpreter", "TLC-enumerated histories + trace validation of fingerprints", "DESIGN.md 5 C10", "session")
check("C11", "model_checking",
      "All gate strings up to a length over the decompiler's alphabet (spec/GateGen.tla) plus sampled long ones are decompiled; TLC checks per "
      "section: index range covers exactly the section's gates, maximality, partition, and expression = action of the gates on all basis states.",
      TB, "TLC-enumerated gate strings + TLA+ circuit/boolean semantics", "DESIGN.md 5 C11", "gates")
check("C12", "model_checking",
      "Same gate strings through circuit_boolean_optimizer: same qubit count, not more gates, input unchanged, and EXACT equality of the two "
      "unitaries on every basis state by spec/QSim.tla.",
      TB, "TLC-enumerated gate strings + exact TLA+ simulator", "DESIGN.md 5 C12", "gates")
check("C13", "translation_validation",
      "Circuits over the full gate set (spec/GateGen.tla) and compiled functions are exported by every available exporter in both modes; the "
      "artefact is read back into a neutral gate list and TLC compares it with the circuit per qubit and as an exact unitary; QASM formals and "
      "call operands are checked.",
      TB + "; harness/readers (qiskit, cirq, sympy, qasm)", "readers + TLA+ structural and exact-unitary comparison", "DESIGN.md 5 C13", "gates")
check("C14", "model_checking",
      "TLC enumerates histories of composition operations over a pool of circuit objects (spec/OpsGen.tla); they are replayed on real objects, "
      "every object's gate list is recorded around every step, and TLC checks each step's effect as an exact unitary composition of the recorded "
      "operands plus the frame condition on all other objects.",
      TB, "TLC-enumerated operation histories + exact TLA+ simulator", "DESIGN.md 5 C14", "gates")
check("C15", "translation_validation",
      "Predicates for all marked sets (spec/AlgoGen.tla; several syntactic forms incl. g(x)==y) are wrapped in Grover by the real library; TLC "
      "simulates the circuit exactly, and compares the search-register distribution with the same wrapper built over an abstract oracle "
      "(Algo.IdealGrover) for the marked set that PySem computes from the SOURCE; ordering, >1/2 and decoding clauses are checked.",
      TB, "exact TLA+ state-vector simulation + reference construction", "DESIGN.md 5 C15", "algo")
check("C16", "translation_validation",
      "All constant/balanced functions on 1..3 bits, all secrets on 2..5 bits, all periods on 2..4 bits (incl. non-square Simon functions) are "
      "wrapped by the real classes; TLC simulates exactly and checks the textbook guarantees and the decode tables.",
      TB, "exact TLA+ state-vector simulation", "DESIGN.md 5 C16", "algo")
check("C17", "translation_validation",
      "Tool invocations enumerated by spec/ScriptGen.tla run in-process; the printed expression / DIMACS / QASM is parsed back and TLC compares "
      "it on all assignments (under every variable numbering for DIMACS) with the selected function compiled independently.",
      TB + "; harness/readers/bexp.py", "TLC-enumerated invocations + TLA+ boolean semantics", "DESIGN.md 5 C17", "cli")
check("C18", "translation_validation",
      "to_bqm is run against a recording stand-in for pyqubo; TLC evaluates the recorded model tree's energy on every assignment of inputs and "
      "auxiliaries and compares ground states with the minimisers of the function; decode_samples is checked bit by bit. The transcribed export "
      "(spec/BQM.tla, model-checked by MC_BQM on every ExprGen tree) must predict the recorded tree (refinement binding, Trace_BQM).",
      TB + "; pyqubo is NOT installed: the claim is about the tree qlasskit builds; penalty polynomials quoted from pyqubo's documentation", "recording stand-in + TLA+ energy evaluation on all assignments by TLC + TLA+ refinement model of the export", "DESIGN.md 5 C18", "bqm")

manifest = {
    "version": 1,
    "setup_cmd": "cd /verif && ./bin/setup",
    "hooks": {
        "guard": "QLASSKIT_VERIF",
        "enable": "QLASSKIT_VERIF=1 in the environment of the harness process (set by harness/common.py:use_repo before the library is imported from /repo's working tree)",
        "baseline_off_cmd": "cd /repo && env -u QLASSKIT_VERIF /venv/bin/python -m pytest -ra -q -p no:cacheprovider --timeout=900 --continue-on-collection-errors",
        "source_commits": HOOK_COMMITS,
        "add_only": True,
    },
    "engines": [
        {"name": "artefact", "path": "/verif/harness/drivers/synth.py", "serves_properties": ["C02", "C03", "C06"],
         "kind_free_text": "recorded compiles judged by spec/Trace_Artefact.tla; refinement binding by spec/Trace_Synth.tla"},
        {"name": "pysem", "path": "/verif/harness/drivers/c01.py", "serves_properties": ["C01", "C05", "C07", "C08"],
         "kind_free_text": "TLA+ reference interpreter (spec/PySem.tla) via Trace_C01 / Trace_C05"},
        {"name": "boolopt", "path": "/verif/harness/drivers/c04.py", "serves_properties": ["C04"], "kind_free_text": "spec/Trace_C04.tla"},
        {"name": "codec", "path": "/verif/harness/drivers/c09.py", "serves_properties": ["C09"], "kind_free_text": "spec/Trace_C09.tla"},
        {"name": "session", "path": "/verif/harness/drivers/c10.py", "serves_properties": ["C10"], "kind_free_text": "spec/Session.tla + Trace_C10.tla"},
        {"name": "gates", "path": "/verif/harness/drivers/c11.py", "serves_properties": ["C11", "C12", "C13", "C14"],
         "kind_free_text": "spec/Trace_Gates.tla over Circuit / QSim"},
        {"name": "algo", "path": "/verif/harness/drivers/c15.py", "serves_properties": ["C15", "C16"], "kind_free_text": "spec/Trace_Algo.tla"},
        {"name": "cli", "path": "/verif/harness/drivers/c17.py", "serves_properties": ["C17"], "kind_free_text": "spec/Trace_C17.tla"},
        {"name": "bqm", "path": "/verif/harness/drivers/c18.py", "serves_properties": ["C18"], "kind_free_text": "spec/Trace_C18.tla (contract) + spec/BQM.tla, MC_BQM, Trace_BQM (refinement)"},
    ],
    "checks": [C[k] for k in sorted(C)],
    "not_applicable": [],
    "notes": "Every verdict is produced by TLC evaluating the TLA+ specification in /verif/spec on behaviour recorded from the real library; "
             "known findings are listed in /verif/known_findings.json; see DESIGN.md.",
}
json.dump(manifest, open("/verif/MANIFEST.json", "w"), indent=1)
print("checks:", len(manifest["checks"]), "hook commits:", HOOK_COMMITS)

#!/usr/bin/env python3
"""append an entry to known_findings.json (development aid, never run by a check).
usage: addfinding.py fixed <property> <commit> <what>   |   addfinding.py open <id> <property> <match-json> <what>"""
import json, sys
p = "/verif/known_findings.json"
d = json.load(open(p))
if sys.argv[1] == "fixed":
    _, _, prop, commit, what = sys.argv
    n = 1 + max([int(f["id"].split("-")[-1]) for f in d["findings"] if f["id"].startswith(f"FX-{prop}-")] or [0])
    d["findings"].append({"id": f"FX-{prop}-{n}", "property": prop, "status": "fixed", "commit": commit, "what": what,
                          "line": f"fixed: property={prop} {commit} {what}", "match": {}})
else:
    _, _, fid, prop, match, what = sys.argv
    d["findings"].append({"id": fid, "property": prop, "status": "open", "what": what, "match": json.loads(match)})
json.dump(d, open(p, "w"), indent=1)
print("entries", len(d["findings"]))

#!/bin/sh
# confirm a seeded change in its scratch worktree: demo passes without, fails with, test failures unchanged
# usage: confirm_seed.sh <worktree> ; writes <worktree>/confirm.txt
wt="$1"; cd "$wt" || exit 2
{
git checkout -q -- qlasskit 2>/dev/null
/venv/bin/python demo.py >/dev/null 2>&1; echo "demo_without_patch_rc=$?"
git apply patch.diff || echo "APPLY FAILED"
/venv/bin/python demo.py >/dev/null 2>&1; echo "demo_with_patch_rc=$?"
/venv/bin/python -m pytest -q -p no:cacheprovider --timeout=900 -rf 2>&1 | grep -E "^FAILED|passed|failed" | sed 's/ - .*//' | sort > with.txt
tail -1 with.txt
grep -c '^FAILED' with.txt
grep '^FAILED' with.txt | grep -v -E "test_tools.py::TestPy2|Qutip" | head
} > confirm.txt 2>&1

"""JSON ast (PySem vocabulary, as printed by the generator specifications) -> Python source text."""
import ast


def desc_src(d, spell=None):
    t = d["t"]
    if t == "tuple" and spell == "Tuple":   # arg node field spell = "Tuple": no Qlist / Qmatrix shorthand
        return "Tuple[" + ", ".join(desc_src(e, spell) for e in d["elts"]) + "]"
    if t == "bool":
        return "bool"
    if t == "int":
        return f"Qint[{d['w']}]"
    if t == "char":
        return "Qchar"
    if t == "fixed":
        return f"Qfixed[{d['i']},{d['f']}]"
    if t == "tuple":
        es = d["elts"]
        if len(es) >= 2 and all(e == es[0] for e in es) and es[0]["t"] != "tuple":
            return f"Qlist[{desc_src(es[0])}, {len(es)}]"
        if len(es) >= 2 and all(e == es[0] for e in es) and es[0]["t"] == "tuple" and all(x == es[0]["elts"][0] for x in es[0]["elts"]) \
                and es[0]["elts"][0]["t"] != "tuple":
            return f"Qmatrix[{desc_src(es[0]['elts'][0])}, {len(es)}, {len(es[0]['elts'])}]"
        return "Tuple[" + ", ".join(desc_src(e) for e in es) + "]"
    raise ValueError(d)


def _ann(d, param=False, spell=None):
    s = desc_src(d, spell)
    if param:
        s = f"Parameter[{s}]"
    return ast.parse(s, mode="eval").body


def to_ast(j):
    if isinstance(j, list):
        return [to_ast(x) for x in j]
    if not isinstance(j, dict):
        return j
    T = j["T"]
    if T == "Constant":
        p = j["value"]
        k = p["T"]
        if k in ("int", "bool", "str"):
            return ast.Constant(value=p["v"])
        if k == "float":
            return ast.Constant(value=p["num"] / p["den"])
        raise ValueError(p)
    if T == "arg":
        return ast.arg(arg=j["arg"], annotation=_ann(j["tdesc"], j.get("param", False), j.get("spell")))
    if T == "FunctionDef":
        return ast.FunctionDef(name=j["name"], args=to_ast(j["args"]), body=to_ast(j["body"]), decorator_list=[],
                               returns=_ann(j["rdesc"]), type_params=[])
    if T == "arguments":
        return ast.arguments(posonlyargs=[], args=to_ast(j["args"]), kwonlyargs=[], kw_defaults=[], defaults=[])
    cls = getattr(ast, T)
    kw = {}
    for f in cls._fields:
        if f in j:
            kw[f] = to_ast(j[f])
        elif f == "ctx":
            kw[f] = ast.Load()
        elif f in ("keywords", "orelse", "decorator_list", "type_params"):
            kw[f] = []
    return cls(**kw)


def source(j):
    node = to_ast(j)
    mod = ast.Module(body=[node], type_ignores=[])
    ast.fix_missing_locations(mod)
    return ast.unparse(mod)

"""Known findings: genuine defects of the library that were recorded rather than repaired.

/verif/known_findings.json is read-only at run time.  An entry is
  {"id", "property", "status": "open" | "fixed", "what", "match": {...}, "witness": {...}}
A failing case is a KNOWN-FINDING iff an *open* entry of the same property matches it; a "fixed" entry
suppresses nothing.  Match forms (all listed keys must hold):
  "src":      exact source text of the program (specific input)
  "src_sha":  list of sha256[:12] of source texts (specific inputs, compact)
  "key":      exact case key (circuits / histories / values, as the driver builds it)
  "keys":     list of case keys
  "clause":   the failing clause TLC reported
  "trigger":  name of a call-site pattern; the driver evaluates the pattern on the failing case and
              passes the set of patterns that hold (e.g. "qfixed-mixed-layout-binop")
"""
import hashlib
import json
import os

from .common import VERIF


def _sha(s):
    return hashlib.sha256(s.encode()).hexdigest()[:12]


class Findings:
    def __init__(self, pid):
        self.pid = pid
        p = os.path.join(VERIF, "known_findings.json")
        self.entries = []
        if os.path.exists(p):
            with open(p) as f:
                self.entries = [e for e in json.load(f)["findings"] if e["property"] == pid]
        self.hits = {}

    def match(self, src=None, key=None, clause=None, triggers=()):
        for e in self.entries:
            if e.get("status") != "open":
                continue
            m = e["match"]
            if "src" in m and m["src"] != src:
                continue
            if "src_sha" in m and (src is None or _sha(src) not in m["src_sha"]):
                continue
            if "key" in m and m["key"] != key:
                continue
            if "keys" in m and key not in m["keys"]:
                continue
            if "clause" in m and m["clause"] != clause:
                continue
            if "trigger" in m and m["trigger"] not in triggers:
                continue
            self.hits[e["id"]] = self.hits.get(e["id"], 0) + 1
            return e
        return None

    def open_ids(self):
        return [e["id"] for e in self.entries if e.get("status") == "open"]


def src_sha(s):
    return _sha(s)

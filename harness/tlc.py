"""Run TLC on the specifications in /verif/spec and read back what it printed.

Two modes:
  * run_cases(module, cases, ...): trace/artefact validation.  `cases` (a list of JSON-able
    records, each with a unique "id") is sharded over parallel single-worker JVMs; the module reads
    its shard through IOEnv.CASES and prints one line  <<"V", id, verdict>>  per case.  The verdict
    is TLC's; this file only parses it.  A case without a verdict line is a machinery failure.
  * run_model(module, cfg, ...): ordinary model checking / simulation of a specification; returns
    TLC's statistics, printed values and the invariant-violation status.
"""
import json
import os
import re
import subprocess
import concurrent.futures as cf

from .common import SPEC, MachineryError

JAR = "/opt/veriftools/tla/tla2tools.jar:/opt/veriftools/tla/CommunityModules-deps.jar"


# ------------------------------------------------------------------ TLA+ value parser
class _P:
    def __init__(self, s, i=0):
        self.s, self.i = s, i

    def ws(self):
        while self.i < len(self.s) and self.s[self.i] in " \t\r\n":
            self.i += 1

    def value(self):
        self.ws()
        s, i = self.s, self.i
        if s.startswith("<<", i):
            self.i += 2
            out = []
            while True:
                self.ws()
                if s.startswith(">>", self.i):
                    self.i += 2
                    return out
                out.append(self.value())
                self.ws()
                if s.startswith(",", self.i):
                    self.i += 1
        if s[i] == "{":
            self.i += 1
            out = []
            while True:
                self.ws()
                if s[self.i] == "}":
                    self.i += 1
                    return {"__set__": out}
                out.append(self.value())
                self.ws()
                if s[self.i] == ",":
                    self.i += 1
        if s[i] == "[":
            self.i += 1
            out = {}
            while True:
                self.ws()
                if s[self.i] == "]":
                    self.i += 1
                    return out
                m = re.compile(r"[A-Za-z_][A-Za-z0-9_]*").match(s, self.i)
                key = m.group(0)
                self.i = m.end()
                self.ws()
                assert s.startswith("|->", self.i), s[self.i : self.i + 20]
                self.i += 3
                out[key] = self.value()
                self.ws()
                if s[self.i] == ",":
                    self.i += 1
        if s[i] == "(":  # function  (a :> b @@ c :> d)
            self.i += 1
            out = {}
            while True:
                self.ws()
                if s[self.i] == ")":
                    self.i += 1
                    return {"__fun__": list(out.items())}
                k = self.value()
                self.ws()
                assert s.startswith(":>", self.i)
                self.i += 2
                v = self.value()
                out[json.dumps(k)] = v
                self.ws()
                if s.startswith("@@", self.i):
                    self.i += 2
        if s[i] == '"':
            j = i + 1
            buf = []
            while s[j] != '"':
                if s[j] == "\\":
                    j += 1
                    buf.append({"n": "\n", "t": "\t"}.get(s[j], s[j]))
                else:
                    buf.append(s[j])
                j += 1
            self.i = j + 1
            return "".join(buf)
        m = re.compile(r"-?\d+").match(s, i)
        if m:
            self.i = m.end()
            return int(m.group(0))
        for lit, val in (("TRUE", True), ("FALSE", False)):
            if s.startswith(lit, i):
                self.i += len(lit)
                return val
        m = re.compile(r"[A-Za-z_][A-Za-z0-9_]*").match(s, i)
        if m:  # model value
            self.i = m.end()
            return m.group(0)
        raise ValueError(f"cannot parse TLA+ value at {s[i:i+40]!r}")


def parse_value(s):
    return _P(s).value()


def find_tuples(text, tag):
    """All printed tuples  <<"tag", ...>>  in TLC's output (the pretty-printer may wrap them over
    several lines and then writes  << "tag",  with a blank)."""
    out = []
    rx = re.compile(r'<<\s*"' + re.escape(tag) + r'"\s*,')
    i = 0
    while True:
        m = rx.search(text, i)
        if not m:
            return out
        p = _P(text, m.start())
        try:
            out.append(p.value())
            i = p.i
        except Exception:
            i = m.end()


# ------------------------------------------------------------------ running TLC
def _java(heap):
    return ["java", "-XX:+UseParallelGC", "-XX:ParallelGCThreads=2", "-XX:TieredStopAtLevel=1", "-Xss512m", f"-Xmx{heap}", "-cp", JAR]


def _stats(text):
    st = {}
    m = re.search(r"(\d+) states generated, (\d+) distinct states found", text)
    if m:
        st["generated"] = int(m.group(1))
        st["distinct"] = int(m.group(2))
    m = re.search(r"The depth of the complete state graph search is (\d+)", text)
    if m:
        st["depth"] = int(m.group(1))
    return st


def _cfg_for(module, scratch, cfg_text=None):
    path = os.path.join(scratch, f"{module}.cfg")
    if cfg_text is None:
        cfg_text = "SPECIFICATION Spec\nCHECK_DEADLOCK FALSE\n"
    with open(path, "w") as f:
        f.write(cfg_text)
    return path


def _run_one(module, cfgpath, env, metadir, logpath, timeout, workers=1, heap="3g", extra=()):
    cmd = _java(heap) + [
        "tlc2.TLC",
        "-workers", str(workers),
        "-metadir", metadir,
        "-noGenerateSpecTE",
        "-config", cfgpath,
        *extra,
        os.path.join(SPEC, f"{module}.tla"),
    ]
    e = dict(os.environ)
    e.update(env)
    with open(logpath, "w") as lf:
        try:
            rc = subprocess.run(cmd, cwd=SPEC, env=e, stdout=lf, stderr=subprocess.STDOUT,
                                timeout=timeout).returncode
        except subprocess.TimeoutExpired:
            rc = -9
    with open(logpath) as lf:
        return rc, lf.read()


def run_cases(module, cases, scratch, env=None, shards=16, timeout=900, tag="V", heap="3g",
              cfg_text=None):
    """Returns (verdicts: {id: value}, stats).  Raises MachineryError if TLC fails or a case has
    no verdict."""
    env = dict(env or {})
    if not cases:
        return {}, {"generated": 0, "distinct": 0, "jvms": 0}
    ids = [c["id"] for c in cases]
    if len(set(ids)) != len(ids):
        raise MachineryError("duplicate case ids")
    n = max(1, min(shards, (len(cases) + 3) // 4))
    parts = [cases[k::n] for k in range(n)]
    cfgpath = _cfg_for(module, scratch, cfg_text)
    jobs = []
    for k, part in enumerate(parts):
        cpath = os.path.join(scratch, f"{module}.cases.{k}.json")
        with open(cpath, "w") as f:
            json.dump(part, f)
        e = dict(env)
        e["CASES"] = cpath
        jobs.append((k, e))
    verdicts, gen, dist = {}, 0, 0
    with cf.ThreadPoolExecutor(max_workers=n) as ex:
        futs = {
            ex.submit(_run_one, module, cfgpath, e, os.path.join(scratch, f"meta.{module}.{k}"),
                      os.path.join(scratch, f"{module}.log.{k}"), timeout, 1, heap): k
            for k, e in jobs
        }
        for fu in cf.as_completed(futs):
            k = futs[fu]
            rc, text = fu.result()
            if rc == -9:
                raise MachineryError(f"TLC timeout on shard {k} of {module}")
            vs = find_tuples(text, tag)
            for v in vs:
                verdicts[v[1]] = v[2] if len(v) == 3 else v[2:]
            st = _stats(text)
            gen += st.get("generated", 0)
            dist += st.get("distinct", 0)
            got = {v[1] for v in vs}
            missing = [c["id"] for c in parts[k] if c["id"] not in got]
            if missing:
                tail = "\n".join(text.splitlines()[-25:])
                raise MachineryError(
                    f"TLC gave no verdict for {len(missing)} case(s) of {module} (first: {missing[0]}); rc={rc}\n{tail}")
    return verdicts, {"generated": gen, "distinct": dist, "jvms": n}


def run_model(module, cfg_text, scratch, env=None, workers=16, timeout=1800, heap="8g", extra=(),
              tags=()):
    """Model-check `module` under the given cfg text.  Returns dict(rc, stats, ok, violated, prints)."""
    cfgpath = _cfg_for(module + "_mc", scratch, cfg_text)
    rc, text = _run_one(module, cfgpath, env or {}, os.path.join(scratch, f"meta.mc.{module}"),
                        os.path.join(scratch, f"{module}.mc.log"), timeout, workers, heap, extra)
    if rc == -9:
        raise MachineryError(f"TLC timeout model-checking {module}")
    res = {"rc": rc, "stats": _stats(text), "text": text}
    m = re.search(r"Invariant (\S+) is violated", text)
    res["violated"] = m.group(1) if m else None
    if not m:
        m2 = re.search(r"Action property (\S+) is violated", text) or re.search(r"Temporal properties were violated", text)
        if m2:
            res["violated"] = m2.group(1) if m2.groups() else "temporal"
    res["ok"] = rc == 0 and "Model checking completed. No error has been found." in text
    res["finished"] = "Model checking completed" in text or "Finished in" in text
    res["prints"] = {t: find_tuples(text, t) for t in tags}
    if rc != 0 and not res["violated"]:
        tail = "\n".join(text.splitlines()[-30:])
        raise MachineryError(f"TLC failed on {module} (rc={rc})\n{tail}")
    return res


def sany(module):
    cmd = ["java", "-cp", JAR, "tla2sany.SANY", os.path.join(SPEC, f"{module}.tla")]
    r = subprocess.run(cmd, cwd=SPEC, capture_output=True, text=True)
    ok = r.returncode == 0 and "Semantic errors" not in r.stdout and "error" not in r.stdout.lower().replace("errors: 0", "")
    return ok, r.stdout + r.stderr

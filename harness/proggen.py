"""spec -> code: programs enumerated / sampled by TLC from spec/ProgGen.tla, rendered to source."""
import json
import random

from . import tlc, render
from .common import Scratch, seed as _seed, vlog

TEMPL_FAMILIES = ["loopif", "elif", "nested", "listidx", "swapuse", "ifaug", "iftest", "opgrid", "fixgrid", "chargrid", "tupvar", "names", "constfold", "idxvar"]
SIGS = [1, 2, 3, 4, 5, 6, 7, 8, 9, 10, 11, 12, 13]
CFG = ("SPECIFICATION Spec\nCONSTANTS MaxTok = %d\n MaxStack = %d\n MaxStmts = %d\n SigId = %d\n Stmts = %s\n Lean = %s\n"
       "INVARIANT Emit\nCHECK_DEADLOCK FALSE\n")

_cache = {}


def _run(sc, sig, maxtok, stmts, sim=None, depth=None, sd=0, lean=False):
    cfg = CFG % (depth if sim else maxtok, 2 if lean else 3, 4, sig, "TRUE" if stmts else "FALSE", "TRUE" if lean else "FALSE")
    extra = ()
    if sim:
        extra = ("-simulate", f"num={sim}", "-depth", str(depth), "-seed", str(sd))
    r = tlc.run_model("ProgGen", cfg, sc, workers=(1 if sim else 8), timeout=900, tags=("P",), extra=extra, heap="6g")
    progs = [json.loads(v[1]) for v in r["prints"]["P"]]
    return progs, r["stats"]


def shape(stmts):
    """statement-kind skeleton of a body (used to stratify samples)"""
    out = []
    for s in stmts:
        t = s["T"]
        if t == "If":
            out.append("If(" + shape(s["body"]) + "|" + shape(s.get("orelse", [])) + ")")
        elif t == "For":
            out.append("For[" + s["iter"]["T"] + "](" + shape(s["body"]) + ")")
        elif t == "Assign":
            tg = s["targets"][0]["T"]
            out.append("Swap" if tg == "Tuple" else "Assign")
        elif t == "Return":
            v = s["value"]
            out.append("Return:" + (v.get("id", "") if v["T"] == "Name" else v["T"]))
        else:
            out.append(t)
    return ",".join(out)


def features(node, acc=None):
    """constructs a program uses: node kinds, operators, builtins, which arguments are read"""
    acc = set() if acc is None else acc
    if isinstance(node, dict):
        t = node.get("T")
        if t in ("BinOp", "UnaryOp", "BoolOp"):
            acc.add(node["op"]["T"])
        elif t == "Compare":
            acc.add("Cmp" + node["ops"][0]["T"])
            l, r = node["left"], node["comparators"][0]
            acc.add("Cmp:" + l.get("id", l["T"]) + "," + r.get("id", r["T"]))
        elif t == "Call":
            acc.add("call:" + node["func"].get("id", "?"))
        elif t == "Name":
            acc.add("var:" + node["id"])
        elif t == "Subscript":
            acc.add("Sub:" + node["value"].get("id", node["value"]["T"]) + "[" + node["slice"]["T"] + "]")
        elif t in ("If", "For", "IfExp", "AugAssign", "Tuple"):
            acc.add(t)
        for v in node.values():
            features(v, acc)
    elif isinstance(node, list):
        for v in node:
            features(v, acc)
    return acc


def stratified(ps, rng, cap):
    """at most `cap` programs: first, for every single construct (operator, builtin, statement kind, subscript
    kind, argument read) a few small programs that use it, so that every action of the generator is represented;
    then programs spread over the distinct feature SETS (rare combinations are not crowded out)"""
    rng.shuffle(ps)
    feats = [(p, frozenset(features(p["body"]))) for p in ps]
    byf = {}
    for p, fs in feats:
        for f in fs:
            byf.setdefault(f, []).append(p)
    must, seen = [], set()
    for f in sorted(byf):
        cands = sorted(byf[f], key=lambda p: len(json.dumps(p["body"])))[:12]
        rng.shuffle(cands)
        for p in cands[:2]:
            k = id(p)
            if k not in seen:
                seen.add(k)
                must.append(p)
    ps = [p for p in ps if id(p) not in seen]
    cap = max(0, cap - len(must))
    if cap == 0:
        return must
    return must + _by_sets(ps, rng, cap)


def _by_sets(ps, rng, cap):
    strata = {}
    for p in ps:
        strata.setdefault(frozenset(features(p["body"])), []).append(p)
    keys = sorted(strata, key=lambda k: (len(strata[k]), sorted(k)))
    out, i = [], 0
    while len(out) < cap and any(strata[k] for k in keys):
        k = keys[i % len(keys)]
        if strata[k]:
            out.append(strata[k].pop())
        i += 1
    return out


def generate(tier, sd):
    """-> (list of {"src", "origin", "ast"}, generator stats)"""
    key = (tier, sd)
    if key in _cache:
        return _cache[key]
    # the generated corpus depends only on the generator specification, the tier and the seed: it is kept under
    # /verif/out/cache (derived data, rebuilt when absent or when the specification changes) and shared by the checks
    import hashlib, os
    from .common import OUT, SPEC
    h = hashlib.sha256()
    for fn in (os.path.join(SPEC, "ProgGen.tla"), os.path.join(SPEC, "AstLib.tla"), os.path.join(SPEC, "TemplGen.tla"), __file__, os.path.join(os.path.dirname(__file__), "render.py")):
        with open(fn, "rb") as f:
            h.update(f.read())
    cpath = os.path.join(OUT, "cache", f"proggen-{tier}-{sd}-{h.hexdigest()[:16]}.json")
    if os.path.exists(cpath):
        try:
            with open(cpath) as f:
                res, gstats = json.load(f)
            gstats["from_cache"] = True
            _cache[key] = (res, gstats)
            vlog("proggen (cached)", len(res))
            return _cache[key]
        except Exception:
            pass
    rng = random.Random(sd)
    out, seen = [], set()
    gstats = {"generated": 0, "distinct": 0, "bfs_programs": 0, "sim_programs": 0}
    quick = tier == "quick"
    with Scratch("proggen") as sc:
        deep = set(rng.sample(SIGS, 2)) if quick else set(SIGS)
        for sig in SIGS:
            # exhaustive layers: expressions only and with statement templates, to a token bound
            if quick:
                layers = [(True, 4)]
            else:
                layers = [(False, 5), (True, 5)]
            for stmts, mt in layers:
                ps, st = _run(sc, sig, mt, stmts)
                gstats["generated"] += st.get("generated", 0)
                gstats["distinct"] += st.get("distinct", 0)
                gstats["bfs_programs"] += len(ps)
                ps = stratified(ps, rng, 60 if quick else 400)
                for p in ps:
                    out.append((p, f"ProgGen-bfs-sig{sig}"))
            # statement structure: lean expressions, deeper BFS, stratified by the shape of the body
            ps, st = _run(sc, sig, 6 if quick else 7, True, lean=True)
            gstats["generated"] += st.get("generated", 0)
            gstats["distinct"] += st.get("distinct", 0)
            gstats["bfs_programs"] += len(ps)
            rng.shuffle(ps)
            strata = {}
            for p in ps:
                strata.setdefault(shape(p["body"]), []).append(p)
            for k in sorted(strata):
                for p in strata[k][: (2 if quick else 12)]:
                    out.append((p, f"ProgGen-lean-sig{sig}"))
            # statement structure, deep: random behaviours of the lean machine (loop variables in tests, elif, nested loops)
            ps, st = _run(sc, sig, 0, True, sim=(600 if quick else 4000), depth=15, sd=sd * 100 + 50 + sig, lean=True)
            gstats["sim_programs"] += len(ps)
            strata = {}
            rng.shuffle(ps)
            for p in ps:
                strata.setdefault(shape(p["body"]), []).append(p)
            for k in sorted(strata):
                for p in strata[k][: (1 if quick else 6)]:
                    out.append((p, f"ProgGen-leansim-sig{sig}"))
            # deep random behaviours
            ps, st = _run(sc, sig, 0, True, sim=(1200 if quick else 6000), depth=(11 if quick else 13), sd=sd * 100 + sig)
            gstats["sim_programs"] += len(ps)
            ps = stratified(ps, rng, 110 if quick else 500)
            for p in ps:
                out.append((p, f"ProgGen-sim-sig{sig}"))
    # statement templates (spec/TemplGen.tla): every member of each family in the thorough tier, a seeded sample otherwise
    with Scratch("templgen") as sc:
        for fam in TEMPL_FAMILIES:
            cfg = f"SPECIFICATION Spec\nCONSTANT Family = \"{fam}\"\nINVARIANT Emit\nCHECK_DEADLOCK FALSE\n"
            r = tlc.run_model("TemplGen", cfg, sc, workers=4, timeout=600, tags=("P",), heap="4g")
            ps = [json.loads(v[1]) for v in r["prints"]["P"]]
            gstats["generated"] += r["stats"].get("generated", 0)
            gstats["distinct"] += r["stats"].get("distinct", 0)
            gstats["templ_programs"] = gstats.get("templ_programs", 0) + len(ps)
            rng.shuffle(ps)
            for p in (ps[:(260 if fam == "opgrid" else 120 if fam == "fixgrid" else 45)] if quick else ps):
                out.append((p, "OpGrid" if fam == "opgrid" else "FixGrid" if fam == "fixgrid" else f"TemplGen-{fam}"))
    res = []
    for p, origin in out:
        try:
            src = render.source(p)
        except Exception as e:
            continue
        if src in seen:
            continue
        seen.add(src)
        res.append({"src": src, "origin": origin})
    vlog("proggen", len(res), gstats)
    try:
        os.makedirs(os.path.dirname(cpath), exist_ok=True)
        tmp = cpath + f".{os.getpid()}"
        with open(tmp, "w") as f:
            json.dump([res, gstats], f)
        os.replace(tmp, cpath)
    except OSError:
        pass
    _cache[key] = (res, gstats)
    return res, gstats


QUICK_CAPS = {"OpGrid": 180, "FixGrid": 120, "TemplGen": 560, "ProgGen-leansim": 130, "ProgGen-lean": 260, "ProgGen-bfs": 480, "ProgGen-sim": 560}


def programs(pid, tier, sd):
    res = generate(tier, sd)[0]
    if tier != "quick":
        return res
    # quick tier: a fixed budget per generator layer (seeded choice; the per-signature stratification above already
    # put the rare constructs first in each layer)
    rng = random.Random(sd + 17)
    groups = {}
    for p in res:
        k = next(g for g in QUICK_CAPS if p["origin"].startswith(g))
        groups.setdefault(k, []).append(p)
    out = []
    for k, ps in groups.items():
        bysig = {}
        for p in ps:
            bysig.setdefault(p["origin"], []).append(p)
        cap = QUICK_CAPS[k] if (k not in ("OpGrid", "FixGrid") or pid in ("C01", "C04")) else 50   # the full operator grid for the translator check
        per = max(1, cap // max(1, len(bysig)))
        for o in sorted(bysig):
            out += bysig[o][:per]
    return out

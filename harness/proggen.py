"""spec -> code: programs enumerated / sampled by TLC from spec/ProgGen.tla, rendered to source."""
import json
import random

from . import tlc, render
from .common import Scratch, seed as _seed, vlog

SIGS = [1, 2, 3, 4, 5, 6, 7, 8, 9, 10, 11]
CFG = ("SPECIFICATION Spec\nCONSTANTS MaxTok = %d\n MaxStack = %d\n MaxStmts = %d\n SigId = %d\n Stmts = %s\n Lean = %s\n"
       "INVARIANT Emit\nCHECK_DEADLOCK FALSE\n")

_cache = {}


def _run(sc, sig, maxtok, stmts, sim=None, depth=None, sd=0, lean=False):
    cfg = CFG % (depth if sim else maxtok, 2 if lean else 3, 4, sig, "TRUE" if stmts else "FALSE", "TRUE" if lean else "FALSE")
    extra = ()
    if sim:
        extra = ("-simulate", f"num={sim}", "-depth", str(depth), "-seed", str(sd))
    r = tlc.run_model("ProgGen", cfg, sc, workers=(1 if sim else 8), timeout=900, tags=("P",), extra=extra, heap="6g")
    progs = [json.loads(v[1]) for v in r["prints"]["P"]]
    return progs, r["stats"]


def shape(stmts):
    """statement-kind skeleton of a body (used to stratify samples)"""
    out = []
    for s in stmts:
        t = s["T"]
        if t == "If":
            out.append("If(" + shape(s["body"]) + "|" + shape(s.get("orelse", [])) + ")")
        elif t == "For":
            out.append("For[" + s["iter"]["T"] + "](" + shape(s["body"]) + ")")
        elif t == "Assign":
            tg = s["targets"][0]["T"]
            out.append("Swap" if tg == "Tuple" else "Assign")
        elif t == "Return":
            v = s["value"]
            out.append("Return:" + (v.get("id", "") if v["T"] == "Name" else v["T"]))
        else:
            out.append(t)
    return ",".join(out)


def features(node, acc=None):
    """constructs a program uses: node kinds, operators, builtins, which arguments are read"""
    acc = set() if acc is None else acc
    if isinstance(node, dict):
        t = node.get("T")
        if t in ("BinOp", "UnaryOp", "BoolOp"):
            acc.add(node["op"]["T"])
        elif t == "Compare":
            acc.add("Cmp" + node["ops"][0]["T"])
        elif t == "Call":
            acc.add("call:" + node["func"].get("id", "?"))
        elif t == "Name":
            acc.add("var:" + node["id"])
        elif t == "Subscript":
            acc.add("Sub:" + node["slice"]["T"])
        elif t in ("If", "For", "IfExp", "AugAssign", "Tuple"):
            acc.add(t)
        for v in node.values():
            features(v, acc)
    elif isinstance(node, list):
        for v in node:
            features(v, acc)
    return acc


def stratified(ps, rng, cap):
    """at most `cap` programs, spread over the distinct feature sets (rare constructs are not crowded out)"""
    rng.shuffle(ps)
    strata = {}
    for p in ps:
        strata.setdefault(frozenset(features(p["body"])), []).append(p)
    keys = sorted(strata, key=lambda k: (len(strata[k]), sorted(k)))
    out, i = [], 0
    while len(out) < cap and any(strata[k] for k in keys):
        k = keys[i % len(keys)]
        if strata[k]:
            out.append(strata[k].pop())
        i += 1
    return out


def generate(tier, sd):
    """-> (list of {"src", "origin", "ast"}, generator stats)"""
    key = (tier, sd)
    if key in _cache:
        return _cache[key]
    rng = random.Random(sd)
    out, seen = [], set()
    gstats = {"generated": 0, "distinct": 0, "bfs_programs": 0, "sim_programs": 0}
    quick = tier == "quick"
    with Scratch("proggen") as sc:
        deep = set(rng.sample(SIGS, 2)) if quick else set(SIGS)
        for sig in SIGS:
            # exhaustive layers: expressions only and with statement templates, to a token bound
            if quick:
                layers = [(True, 4)] if sig in deep else [(True, 3)]
            else:
                layers = [(False, 5), (True, 5)]
            for stmts, mt in layers:
                ps, st = _run(sc, sig, mt, stmts)
                gstats["generated"] += st.get("generated", 0)
                gstats["distinct"] += st.get("distinct", 0)
                gstats["bfs_programs"] += len(ps)
                ps = stratified(ps, rng, (80 if sig in deep else 30) if quick else 400)
                for p in ps:
                    out.append((p, f"ProgGen-bfs-sig{sig}"))
            # statement structure: lean expressions, deeper BFS, stratified by the shape of the body
            ps, st = _run(sc, sig, 6 if quick else 7, True, lean=True)
            gstats["generated"] += st.get("generated", 0)
            gstats["distinct"] += st.get("distinct", 0)
            gstats["bfs_programs"] += len(ps)
            rng.shuffle(ps)
            strata = {}
            for p in ps:
                strata.setdefault(shape(p["body"]), []).append(p)
            for k in sorted(strata):
                for p in strata[k][: (2 if quick else 12)]:
                    out.append((p, f"ProgGen-lean-sig{sig}"))
            # deep random behaviours
            ps, st = _run(sc, sig, 0, True, sim=(150 if quick else 3000), depth=(11 if quick else 13), sd=sd * 100 + sig)
            gstats["sim_programs"] += len(ps)
            ps = stratified(ps, rng, 60 if quick else 400)
            for p in ps:
                out.append((p, f"ProgGen-sim-sig{sig}"))
    res = []
    for p, origin in out:
        try:
            src = render.source(p)
        except Exception as e:
            continue
        if src in seen:
            continue
        seen.add(src)
        res.append({"src": src, "origin": origin})
    vlog("proggen", len(res), gstats)
    _cache[key] = (res, gstats)
    return res, gstats


def programs(pid, tier, sd):
    return generate(tier, sd)[0]

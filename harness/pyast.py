"""Source text -> decorated JSON ast for spec/PySem.tla.

Only *parsing* happens here: the ast is dumped node by node (harness/ser.py) and type annotations /
typed-constant calls are given their type descriptors (the vocabulary of spec/Codec.tla).  What a
program means is decided by TLC."""
import ast
import re
from fractions import Fraction

from . import ser


class NotDescribable(Exception):
    pass


def _const_int(node):
    if isinstance(node, ast.Constant) and isinstance(node.value, int):
        return node.value
    raise NotDescribable(ast.dump(node))


def ann_desc(node):
    """annotation node -> (type descriptor, is_parameter)"""
    if isinstance(node, ast.Attribute):
        node = ast.Name(id=node.attr)
    if isinstance(node, ast.Name):
        n = node.id
        if n == "bool":
            return {"t": "bool"}, False
        if n == "Qchar":
            return {"t": "char", "w": 8}, False
        m = re.fullmatch(r"Qint(\d+)", n)
        if m:
            return {"t": "int", "w": int(m.group(1))}, False
        m = re.fullmatch(r"Qfixed(\d+)_(\d+)", n)
        if m:
            i, f = int(m.group(1)), int(m.group(2))
            return {"t": "fixed", "i": i, "f": f, "w": i + f}, False
        raise NotDescribable(n)
    if isinstance(node, ast.Subscript):
        base = node.value.attr if isinstance(node.value, ast.Attribute) else getattr(node.value, "id", None)
        sl = node.slice
        elts = list(sl.elts) if isinstance(sl, ast.Tuple) else [sl]
        if base == "Parameter":
            d, _ = ann_desc(sl)
            return d, True
        if base == "Qint":
            return {"t": "int", "w": _const_int(elts[0])}, False
        if base == "Qfixed":
            i, f = _const_int(elts[0]), _const_int(elts[1])
            return {"t": "fixed", "i": i, "f": f, "w": i + f}, False
        if base == "Tuple":
            return {"t": "tuple", "elts": [ann_desc(e)[0] for e in elts]}, False
        if base == "Qlist":
            return {"t": "tuple", "elts": [ann_desc(elts[0])[0]] * _const_int(elts[1])}, False
        if base == "Qmatrix":
            row = {"t": "tuple", "elts": [ann_desc(elts[0])[0]] * _const_int(elts[2])}
            return {"t": "tuple", "elts": [row] * _const_int(elts[1])}, False
    raise NotDescribable(ast.dump(node))


def _decorate(node, j):
    """add tdesc / rdesc / cast / constant payload details to the JSON form j of ast node `node`"""
    if isinstance(node, ast.FunctionDef):
        for a, ja in zip(node.args.args, j["args"]["args"]):
            if a.annotation is not None:
                try:
                    d, isparam = ann_desc(a.annotation)
                    ja["tdesc"] = d
                    if isparam:
                        ja["param"] = True
                except NotDescribable:
                    pass
            ja.pop("annotation", None)
        if node.returns is not None:
            try:
                j["rdesc"] = ann_desc(node.returns)[0]
            except NotDescribable:
                pass
        j.pop("returns", None)
    if isinstance(node, ast.AnnAssign):
        j.pop("annotation", None)
    if isinstance(node, ast.Call) and isinstance(node.func, ast.Name):
        try:
            d, _ = ann_desc(ast.Name(id=node.func.id))
            if d["t"] in ("int", "fixed") and len(node.args) == 1:
                j["cast"] = d
        except NotDescribable:
            pass
    if isinstance(node, ast.Constant):
        v = node.value
        if isinstance(v, str) and len(v) == 1:
            j["value"]["code"] = ord(v)
        if isinstance(v, float):
            fr = Fraction(repr(v))
            if fr >= 0 and fr.denominator < 10 ** 6 and fr.numerator < 10 ** 6:
                j["value"] = {"T": "float", "num": fr.numerator, "den": fr.denominator}
    for name in node._fields:
        if name in ("annotation", "returns") and isinstance(node, (ast.arg, ast.FunctionDef, ast.AnnAssign)):
            continue
        child = getattr(node, name, None)
        if isinstance(child, ast.AST) and name in j:
            _decorate(child, j[name])
        elif isinstance(child, list) and name in j:
            for c, jc in zip(child, j[name]):
                if isinstance(c, ast.AST):
                    _decorate(c, jc)


def program(src):
    """-> decorated JSON FunctionDef of the first statement of src"""
    tree = ast.parse(src)
    fd = tree.body[0]
    if not isinstance(fd, ast.FunctionDef):
        raise NotDescribable("not a function definition")
    fd.decorator_list = []
    j = ser.ser_ast(fd)
    _decorate(fd, j)
    return j


def const_node(v):
    """python constant (parameter value) -> JSON ast node, the shape UnboundQlassf.bind injects"""
    def to_val(w):
        if hasattr(w, "__iter__") and not isinstance(w, (str, bytes)):
            return ast.Tuple(elts=[to_val(x) for x in w], ctx=ast.Load())
        return ast.Constant(value=w)

    n = to_val(v)
    j = ser.ser_ast(n)
    _decorate(n, j)
    return j


def copy_types(src_def, dst_def):
    """give the ast recorded after a pass the argument / return type descriptors of the source function
    (the passes rewrite annotations; types are a property of the source signature)"""
    for a, b in zip(src_def["args"]["args"], dst_def["args"]["args"]):
        for k in ("tdesc", "param"):
            if k in a:
                b[k] = a[k]
        b.pop("annotation", None)
    if "rdesc" in src_def:
        dst_def["rdesc"] = src_def["rdesc"]
    dst_def.pop("returns", None)
    _redecorate(dst_def)


def _redecorate(j):
    """cast / constant decorations on a JSON ast (no python ast at hand)"""
    if isinstance(j, dict):
        if j.get("T") == "Call" and isinstance(j.get("func"), dict) and j["func"].get("T") == "Name" and len(j.get("args", [])) == 1:
            try:
                d, _ = ann_desc(ast.Name(id=j["func"]["id"]))
                if d["t"] in ("int", "fixed"):
                    j["cast"] = d
            except NotDescribable:
                pass
        if j.get("T") == "Constant":
            p = j.get("value", {})
            if p.get("T") == "str" and len(p.get("v", "")) == 1:
                p["code"] = ord(p["v"])
            if p.get("T") == "float":
                fr = Fraction(p["v"])
                if fr >= 0 and fr.denominator < 10 ** 6 and fr.numerator < 10 ** 6:
                    j["value"] = {"T": "float", "num": fr.numerator, "den": fr.denominator}
        if j.get("T") == "FunctionDef" and "annotation" in str(j.get("args", ""))[:0]:
            pass
        for v in j.values():
            _redecorate(v)
    elif isinstance(j, list):
        for v in j:
            _redecorate(v)

"""Serialisers: implementation state -> JSON for the TLA+ specifications.  No meaning is computed
here; trees are written out node by node."""
import ast
import math

from sympy import Symbol
from sympy.logic.boolalg import (ITE, And, BooleanFalse, BooleanTrue, Implies, Not, Or, Xor)


class Unserialisable(Exception):
    pass


_OPS = ((And, "and"), (Or, "or"), (Not, "not"), (Xor, "xor"), (ITE, "ite"), (Implies, "implies"))


def ser_expr(e):
    if e is True or isinstance(e, BooleanTrue):
        return {"op": "true"}
    if e is False or isinstance(e, BooleanFalse):
        return {"op": "false"}
    if isinstance(e, Symbol):
        return {"op": "sym", "n": e.name}
    for cls, nm in _OPS:
        if isinstance(e, cls):
            return {"op": nm, "args": [ser_expr(a) for a in e.args]}
    raise Unserialisable(f"{type(e).__name__}: {e}")


def ser_exprs(exprs):
    return [[s.name if isinstance(s, Symbol) else str(s), ser_expr(e)] for s, e in exprs]


def expr_size(j):
    if "args" not in j:
        return 1
    return 1 + sum(expr_size(a) for a in j["args"])


# ---------------------------------------------------------------- gates
def phase_m(p):
    """phase as integer multiple of 2*pi/16 when it is one (exact to 1e-9), else None"""
    if p is None:
        return 0
    try:
        x = float(p) / (2 * math.pi / 16)
    except Exception:
        return None
    r = round(x)
    if abs(x - r) < 1e-9:
        return int(r) % 16
    return None


class GateIds:
    """Small per-trace integers for gate *objects* (remove_identities / uncompute compare identity)."""

    def __init__(self):
        self.ids = {}
        self.keep = []

    def __call__(self, g):
        k = id(g)
        if k not in self.ids:
            self.ids[k] = len(self.ids)
            self.keep.append(g)  # keep alive so ids are not recycled
        return self.ids[k]


def gate_kind(g):
    from qlasskit.qcircuit import gates as G

    if isinstance(g, G.NopGate):
        return "BAR"
    if isinstance(g, G.I):
        return "I"
    if isinstance(g, G.X):
        return "X"
    if isinstance(g, G.QControlledGate):
        inner = g.gate
        if isinstance(inner, G.X):
            return "MCX"
        if isinstance(inner, G.Z):
            return "MCZ"
        if isinstance(inner, G.P):
            return "MCP"
        return "MC_OTHER"
    if isinstance(g, G.Swap):
        return "SWAP"
    for cls, nm in ((G.H, "H"), (G.Z, "Z"), (G.Y, "Y"), (G.S, "S"), (G.T, "T"), (G.P, "P")):
        if isinstance(g, cls):
            return nm
    return "OTHER"


def ser_gate(applied, ids=None):
    g, w, p = applied
    k = gate_kind(g)
    m = phase_m(p) if k in ("P", "MCP") else 0
    d = {"k": k, "cls": g.__class__.__name__, "name": str(g.name), "w": [int(x) for x in w],
         "m": -1 if m is None else m,
         "p": "" if p is None else (repr(round(float(p), 12)) if isinstance(p, (int, float)) else str(p))}
    if ids is not None:
        d["id"] = ids(g)
    return d


def ser_gates(gates, ids=None):
    return [ser_gate(a, ids) for a in gates]


def ser_qmap(qc):
    return [[str(k), int(v)] for k, v in qc.qubit_map.items()]


# ---------------------------------------------------------------- python ast
def ser_ast(node):
    """ast -> JSON; node class names are kept in field "T" (spec/PySem.tla interprets them).
    Identifier-valued fields stay plain strings; the payload of a Constant is wrapped with its kind."""
    if isinstance(node, ast.Constant):
        return {"T": "Constant", "value": _payload(node.value)}
    if isinstance(node, ast.AST):
        d = {"T": type(node).__name__}
        for f in node._fields:
            if f in ("ctx", "type_comment", "kind", "type_ignores", "lineno", "decorator_list", "type_params"):
                continue
            v = getattr(node, f, None)
            if v is None:
                continue
            d[f] = ser_ast(v)
        return d
    if isinstance(node, list):
        return [ser_ast(x) for x in node]
    if isinstance(node, (str, int)) and not isinstance(node, bool):
        return node
    return _payload(node)


def _payload(v):
    if isinstance(v, bool):
        return {"T": "bool", "v": v}
    if isinstance(v, int):
        return {"T": "int", "v": v} if abs(v) < 2 ** 31 else {"T": "bigint", "v": str(v)}
    if isinstance(v, float):
        return {"T": "float", "v": repr(v)}
    if isinstance(v, str):
        return {"T": "str", "v": v}
    if isinstance(v, ast.AST):  # the rewriter stores ast.Tuple inside Constant
        return {"T": "node", "v": ser_ast(v)}
    return {"T": "opaque", "v": repr(v)}

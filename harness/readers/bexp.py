"""Reader for the text py2bexp prints: sympy's string form of a boolean expression -> BoolSem tree.
Precedence as in sympy's printer: ~ binds tightest, then &, then |, then ^ (Xor), then >> (Implies)."""
import re

TOK = re.compile(r"\s*(?:(?P<id>[A-Za-z_][A-Za-z0-9_.]*)|(?P<op>>>|<<|[~&|^(),]))")


class ParseError(Exception):
    pass


def tokens(s):
    out, i = [], 0
    s = s.strip()
    while i < len(s):
        m = TOK.match(s, i)
        if not m:
            raise ParseError(f"cannot tokenise at {s[i:i+20]!r}")
        out.append(m.group("id") or m.group("op"))
        i = m.end()
    return out


FUN = {"Xor": "xor", "And": "and", "Or": "or", "Not": "not", "ITE": "ite", "Implies": "implies", "Nand": None, "Nor": None,
       "Xnor": None, "Equivalent": None}


def parse(text):
    ts = tokens(text)
    pos = [0]

    def peek():
        return ts[pos[0]] if pos[0] < len(ts) else None

    def take(x=None):
        t = peek()
        if t is None or (x is not None and t != x):
            raise ParseError(f"expected {x!r} got {t!r}")
        pos[0] += 1
        return t

    def nary(op, sub, tok):
        args = [sub()]
        while peek() == tok:
            take()
            args.append(sub())
        return args[0] if len(args) == 1 else {"op": op, "args": args}

    def implies():
        a = xor()
        if peek() == ">>":
            take()
            return {"op": "implies", "args": [a, implies()]}
        return a

    def xor():
        return nary("xor", orr, "^")

    def orr():
        return nary("or", andd, "|")

    def andd():
        return nary("and", unary, "&")

    def unary():
        if peek() == "~":
            take()
            return {"op": "not", "args": [unary()]}
        return atom()

    def atom():
        t = take()
        if t == "(":
            e = implies()
            take(")")
            return e
        if t == "True":
            return {"op": "true"}
        if t == "False":
            return {"op": "false"}
        if peek() == "(" and t in FUN:
            if FUN[t] is None:
                raise ParseError(f"function {t}")
            take("(")
            args = [implies()]
            while peek() == ",":
                take()
                args.append(implies())
            take(")")
            return {"op": FUN[t], "args": args}
        if re.fullmatch(r"[A-Za-z_][A-Za-z0-9_.]*", t):
            return {"op": "sym", "n": t}
        raise ParseError(f"unexpected {t!r}")

    e = implies()
    if pos[0] != len(ts):
        raise ParseError(f"trailing {ts[pos[0]:pos[0]+3]}")
    return e


def parse_dimacs(text):
    lines = [l.strip() for l in text.strip().splitlines() if l.strip() and not l.startswith("c")]
    if not lines or not lines[0].startswith("p cnf"):
        raise ParseError("no 'p cnf' header")
    _, _, nv, nc = lines[0].split()
    clauses = []
    for l in lines[1:]:
        xs = [int(x) for x in l.split()]
        if not xs or xs[-1] != 0:
            raise ParseError(f"clause line {l!r}")
        clauses.append(xs[:-1])
    return int(nv), int(nc), clauses

"""Per-target readers: project an exported artefact back to a neutral gate list
[{"k": kind, "w": [qubit indices, controls first], "m": phase multiple of 2*pi/16}] in the vocabulary of
spec/QSim.tla.  They only *read* what the target object says (names, indices, parameters)."""
import math
import re


class Unreadable(Exception):
    pass


def phase_m(theta):
    x = float(theta) / (2 * math.pi / 16)
    r = round(x)
    if abs(x - r) < 1e-9:
        return int(r) % 16
    return -1


def g(k, w, m=0):
    return {"k": k, "w": [int(x) for x in w], "m": int(m)}


# ---------------------------------------------------------------- qiskit
def read_qiskit(obj):
    qc = obj.definition if not hasattr(obj, "data") else obj
    out = []
    for inst in qc.data:
        name = inst.operation.name
        w = [qc.find_bit(b).index for b in inst.qubits]
        ps = list(inst.operation.params)
        if name == "barrier":
            out.append(g("BAR", []))
        elif name in ("x", "h", "z", "s", "t", "y"):
            out.append(g(name.upper(), w))
        elif re.fullmatch(r"c+x|mcx|c\d+x|mcx_gray", name):
            out.append(g("MCX", w))
        elif re.fullmatch(r"c+z|c\d+z", name):
            out.append(g("MCZ", w))
        elif name == "cp":
            out.append(g("MCP", w, phase_m(ps[0])))
        elif name == "p":
            out.append(g("P", w, phase_m(ps[0])))
        elif name == "swap":
            out.append(g("SWAP", w))
        elif name == "id":
            out.append(g("I", w))
        else:
            raise Unreadable(f"qiskit instruction {name}")
    return out, qc.num_qubits


# ---------------------------------------------------------------- cirq
def read_cirq(obj, nq, mode):
    import cirq

    if mode == "gate":
        op = obj().on(*cirq.LineQubit.range(nq))
        n = nq
    else:
        ops = list(obj.all_operations())
        if len(ops) != 1:
            raise Unreadable("cirq circuit is not a single exported gate")
        op = ops[0]
        n = len(obj.all_qubits())
    out = []
    for o in cirq.decompose_once(op):
        w = [q.x for q in o.qubits]
        gt = o.gate
        tn = type(gt).__name__
        if tn == "_PauliX":
            out.append(g("X", w))
        elif tn == "_PauliY":
            out.append(g("Y", w))
        elif tn == "_PauliZ":
            out.append(g("Z", w))
        elif tn == "IdentityGate":
            out.append(g("I", w))
        elif tn in ("CXPowGate", "CCXPowGate", "XPowGate") and gt.exponent == 1:
            out.append(g("MCX" if len(w) > 1 else "X", w))
        elif tn == "HPowGate" and gt.exponent == 1:
            out.append(g("H", w))
        elif tn == "SwapPowGate" and gt.exponent == 1:
            out.append(g("SWAP", w))
        elif tn == "CZPowGate":
            out.append(g("MCZ", w) if gt.exponent == 1 else g("MCP", w, phase_m(gt.exponent * math.pi)))
        elif tn == "ZPowGate":
            m = phase_m(gt.exponent * math.pi)
            out.append(g({8: "Z", 4: "S", 2: "T"}.get(m, "P"), w, m if m not in (8, 4, 2) else 0))
        elif tn == "ControlledGate":
            sub = type(gt.sub_gate).__name__
            if sub == "_PauliX":
                out.append(g("MCX", w))
            elif sub == "_PauliZ":
                out.append(g("MCZ", w))
            else:
                raise Unreadable(f"cirq controlled {sub}")
        else:
            raise Unreadable(f"cirq gate {tn} {gt!r}")
    return out, n


# ---------------------------------------------------------------- sympy
def read_sympy(expr, nq):
    from sympy import Mul, Pow
    from sympy.physics.quantum.gate import CGate, CNotGate, HadamardGate, SwapGate, XGate
    from sympy.physics.quantum.qubit import Qubit

    if expr is None:
        return [], nq
    factors = list(expr.args) if isinstance(expr, Mul) else [expr]
    out = []
    n = nq
    for f in factors:  # leftmost factor is applied last
        reps = 1
        if isinstance(f, Pow):
            f, reps = f.base, int(f.exp)
        if isinstance(f, Qubit):
            n = len(f.qubit_values)
            if any(f.qubit_values):
                raise Unreadable("initial state is not |0..0>")
            continue
        if isinstance(f, XGate):
            one = g("X", [int(f.targets[0])])
        elif isinstance(f, HadamardGate):
            one = g("H", [int(f.targets[0])])
        elif isinstance(f, CNotGate):
            one = g("MCX", [int(f.controls[0]), int(f.targets[0])])
        elif isinstance(f, SwapGate):
            one = g("SWAP", [int(x) for x in f.targets])
        elif isinstance(f, CGate):
            inner = f.gate
            if not isinstance(inner, XGate):
                raise Unreadable(f"sympy controlled {inner}")
            one = g("MCX", [int(c) for c in f.controls] + [int(inner.targets[0])])
        elif f == 1:
            continue
        else:
            raise Unreadable(f"sympy factor {f!r}")
        out.extend([one] * reps)
    out.reverse()
    return out, n


# ---------------------------------------------------------------- qasm
def read_qasm(text, mode):
    """-> (formals, body [(name, param or None, [operand names])], call operands or None, header dict)"""
    m = re.search(r"gate\s+(\S+)\s*([^{]*)\{(.*?)\}", text, re.S)
    if not m:
        raise Unreadable("no gate declaration")
    gname = m.group(1)
    formals = m.group(2).split()
    body = []
    for line in m.group(3).splitlines():
        line = line.strip().rstrip(";")
        if not line:
            continue
        mm = re.fullmatch(r"([A-Za-z_][A-Za-z0-9_]*)(?:\(([^)]*)\))?\s+(.*)", line)
        if not mm:
            raise Unreadable(f"qasm line {line!r}")
        ops = [x for x in re.split(r"[\s,]+", mm.group(3)) if x]
        body.append((mm.group(1), mm.group(2), ops))
    call = None
    if mode == "circuit":
        rest = text[m.end():]
        cm = re.search(re.escape(gname) + r"\s+([^;]*);", rest)
        if not cm:
            raise Unreadable("no gate call")
        call = []
        for x in cm.group(1).split(","):
            xm = re.fullmatch(r"\s*q\[(\d+)\]\s*", x)
            if not xm:
                raise Unreadable(f"call operand {x!r}")
            call.append(int(xm.group(1)))
    hdr = {"version": "3" if "OPENQASM 3" in text else ("2" if "OPENQASM 2" in text else ""),
           "qreg": (lambda q: int(q.group(1)) if q else -1)(re.search(r"qreg\s+q\[(\d+)\]", text))}
    return formals, body, call, hdr


def qasm_neutral(formals, body):
    pos = {}
    for j, f in enumerate(formals):
        pos.setdefault(f, j)  # a name resolves to its first position in the formal list
    out = []
    for name, param, ops in body:
        try:
            w = [pos[o] for o in ops]
        except KeyError as e:
            raise Unreadable(f"operand {e} is not a formal parameter")
        if name in ("x", "h", "z", "s", "t", "y"):
            out.append(g(name.upper(), w))
        elif re.fullmatch(r"c+x", name):
            out.append(g("MCX", w))
        elif re.fullmatch(r"c+z", name):
            out.append(g("MCZ", w))
        elif name == "cp":
            out.append(dict(g("MCP", w, phase_m(float(param))), raw=str(param)))      # the printed text of the angle
        elif name == "p":
            out.append(dict(g("P", w, phase_m(float(param))), raw=str(param)))
        elif name == "swap":
            out.append(g("SWAP", w))
        elif name == "i":
            out.append(g("I", w))
        else:
            raise Unreadable(f"qasm gate {name}")
    return out

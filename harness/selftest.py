"""bin/selftest: negative controls (the binding rejects corrupted recordings) and oracle cross-checks
(the TLA+ contract operators agree with independent engines).  Not a registered check."""
import cmath
import copy
import itertools
import json
import math
import random
import sys

from . import tlc, ser, artefact, pyast, render, proggen, gates as GT
from .common import is_ret,  Scratch, use_repo

FAILS = []


def expect(cond, what):
    print(("ok   " if cond else "FAIL ") + what)
    if not cond:
        FAILS.append(what)


# ------------------------------------------------------------------ (a) binding
def part_binding(sc):
    srcs = ["def f(a: Qint[2], b: Qint[2]) -> bool:\n    return a > b",
            "def f(a: bool, b: bool, c: bool) -> bool:\n    return (a and b) or (not c)",
            "def f(a: Qint[2], b: Qint[2]) -> Qint[2]:\n    return a + b",
            "def f(a: bool, b: bool, c: bool) -> bool:\n    return (a ^ b) and (b ^ c)"]
    arts = [a for s in srcs for a in artefact.compile_job({"id": len(s), "src": s, "opt": "default", "uncs": [True]})]
    rng = random.Random(1)

    def acase(a, cid):
        return {"id": cid, "inputs": a["inputs"], "rets": a["rets"], "exprs": a["exprs"], "gates": a["gates"], "nq": a["nq"],
                "qmap": a["qmap"], "unc": True, "isbool": a["ret"]["type"]["t"] == "bool"}

    def scase(a, cid, ev=None, gates=None):
        names = [n for n, _ in a["exprs"]]
        return {"id": cid, "inputs": a["inputs"], "exprs": a["exprs"], "unc": True, "ev": a["ev"] if ev is None else ev,
                "rets": sorted({n for n in names if is_ret(n)}), "temps": sorted({n for n in names if n.startswith("__")}),
                "retbits": a["rets"], "gates": [{"w": g["w"]} for g in (gates or a["gates"])], "nq": a["nq"], "qmap": a["qmap"]}

    clean = [acase(a, k) for k, a in enumerate(arts)]
    v, _ = tlc.run_cases("Trace_Artefact", clean, sc, env={"PROP": "C02"})
    expect(all(x[0] == "ok" for x in v.values()), "recorded compiles are accepted by the contract (C02)")
    sv, _ = tlc.run_cases("Trace_Synth", [scase(a, k) for k, a in enumerate(arts)], sc)
    expect(all(x[0] == "conform" for x in sv.values()), "recorded compiles conform to the synthesis model")
    # corruption 1: re-target one gate
    bad, sbad = [], []
    for k, a in enumerate(arts):
        for rep in range(4):
            g2 = copy.deepcopy(a["gates"])
            j = rng.randrange(len(g2))
            others = [q for q in range(a["nq"]) if q not in g2[j]["w"]]
            if not others:
                continue
            g2[j]["w"][-1] = rng.choice(others)
            c = acase(a, len(bad))
            c["gates"] = g2
            bad.append(c)
            sbad.append(scase(a, len(sbad), gates=g2))
    v, _ = tlc.run_cases("Trace_Artefact", bad, sc, env={"PROP": "C02"})
    rej = sum(1 for x in v.values() if x[0] == "fail")
    v3, _ = tlc.run_cases("Trace_Artefact", bad, sc, env={"PROP": "C03"})
    rej3 = sum(1 for k in v if v[k][0] == "fail" or v3[k][0] == "fail")
    expect(rej3 == len(bad), f"a re-targeted gate is rejected by C02 or C03 ({rej3}/{len(bad)}; C02 alone {rej})")
    sv, _ = tlc.run_cases("Trace_Synth", sbad, sc)
    expect(all(x[0] == "drift" for x in sv.values()), "a re-targeted gate is drift for the synthesis model")
    # corruption 2: drop the hook events
    sv, _ = tlc.run_cases("Trace_Synth", [scase(a, k, ev=[]) for k, a in enumerate(arts) if a["ev"]], sc)
    expect(all(x[0] == "drift" for x in sv.values()), "a compile recorded without its hook events is drift, not conformance")
    # corruption 3: negate the logged return expression
    neg = []
    for k, a in enumerate(arts):
        c = acase(a, k)
        c["exprs"] = copy.deepcopy(a["exprs"])
        c["exprs"][-1][1] = {"op": "not", "args": [c["exprs"][-1][1]]}
        neg.append(c)
    v, _ = tlc.run_cases("Trace_Artefact", neg, sc, env={"PROP": "C02"})
    expect(all(x[0] == "fail" for x in v.values()), "a negated return expression is rejected (C02)")
    # corruption 4: one fingerprint of a history
    h = {"id": 0, "steps": [{"op": "x", "res": "a", "exc": "", "alone": "a", "alone_exc": "", "before": ["p", "q"], "after": ["p", "q"]}]}
    h2 = copy.deepcopy(h)
    h2["id"] = 1
    h2["steps"][0]["after"][1] = "r"
    h3 = copy.deepcopy(h)
    h3["id"] = 2
    h3["steps"][0]["alone"] = "b"
    v, _ = tlc.run_cases("Trace_C10", [h, h2, h3], sc)
    expect(v[0][0] == "ok" and v[1][1] == "live-object-modified" and v[2][1] == "result-depends-on-history",
           "a changed fingerprint in a recorded history is rejected (C10)")


# ------------------------------------------------------------------ (b) oracles
def part_boolsem(sc):
    from sympy import Symbol
    from sympy.logic.boolalg import And, Or, Not, Xor, ITE, Implies, true, false
    from .drivers.c04 import build

    rng = random.Random(2)
    syms = ["a", "b", "c", "d"]

    def gen(d):
        if d == 0 or rng.random() < 0.2:
            return {"op": "sym", "n": rng.choice(syms)} if rng.random() < 0.9 else {"op": rng.choice(["true", "false"])}
        op = rng.choice(["and", "or", "xor", "not", "ite", "implies"])
        n = {"not": 1, "ite": 3, "implies": 2}.get(op, rng.choice([2, 3]))
        return {"op": op, "args": [gen(d - 1) for _ in range(n)]}

    cases = []
    for k in range(300):
        t = gen(4)
        e = build(t)
        minterms = []
        for r in range(16):
            env = {Symbol(s): bool((r >> j) & 1) for j, s in enumerate(syms)}
            val = e.subs(env) if hasattr(e, "subs") else e
            if bool(val):
                minterms.append({"op": "and", "args": [{"op": "sym", "n": s} if (r >> j) & 1 else {"op": "not", "args": [{"op": "sym", "n": s}]}
                                                      for j, s in enumerate(syms)]})
        tt = {"op": "or", "args": minterms} if len(minterms) > 1 else (minterms[0] if minterms else {"op": "false"})
        cases.append({"id": k, "inputs": syms, "rets": ["_ret"], "pre": [["_ret", t]], "post": [["_ret", tt]]})
    v, _ = tlc.run_cases("Trace_C04", cases, sc)
    expect(all(x[0] == "ok" for x in v.values()), f"BoolSem.Sem agrees with sympy substitution on {len(cases)} random trees x 16 rows")


def np_unitary_apply(gs, nq, b):
    """independent dense simulation with python complex numbers"""
    n = 1 << nq
    st = [0j] * n
    st[b] = 1 + 0j
    for g in gs:
        k, w, m = g["k"], g["w"], g.get("m", 0)
        new = [0j] * n
        ph = cmath.exp(1j * math.pi * m / 8)
        for i, a in enumerate(st):
            if a == 0:
                continue
            bit = lambda q: (i >> q) & 1
            if k in ("BAR", "I"):
                new[i] += a
            elif k == "X":
                new[i ^ (1 << w[0])] += a
            elif k == "MCX":
                new[i ^ (1 << w[-1]) if all(bit(q) for q in w[:-1]) else i] += a
            elif k in ("Z", "MCZ"):
                new[i] += -a if all(bit(q) for q in w) else a
            elif k == "S":
                new[i] += a * 1j if bit(w[0]) else a
            elif k == "T":
                new[i] += a * cmath.exp(1j * math.pi / 4) if bit(w[0]) else a
            elif k in ("P", "MCP"):
                new[i] += a * ph if all(bit(q) for q in w) else a
            elif k == "Y":
                new[i ^ (1 << w[0])] += a * (-1j if bit(w[0]) else 1j)
            elif k == "SWAP":
                j = i
                if bit(w[0]) != bit(w[1]):
                    j = i ^ (1 << w[0]) ^ (1 << w[1])
                new[j] += a
            elif k == "H":
                s = 1 / math.sqrt(2)
                new[i & ~(1 << w[0])] += a * s
                new[i | (1 << w[0])] += a * (-s if bit(w[0]) else s)
            else:
                raise ValueError(k)
        st = new
    return st


def part_qsim(sc):
    strs, _ = GT.gen_strings(sc, "full", 3, 0, sim=60, depth=7, sd=5, minlen=4)
    cases = [{"id": k, "kind": "qsim", "nq": 3, "gates": [{"k": g["k"], "w": g["w"], "m": g["m"]} for g in s]} for k, s in enumerate(strs[:120])]
    v, _ = tlc.run_cases("Trace_Oracle", cases, sc)
    bad = 0
    for c in cases:
        for b, k, amps in v[c["id"]]:
            ref = np_unitary_apply(c["gates"], 3, b)
            got = [0j] * 8
            for idx, co in amps:
                got[idx] = sum(cj * cmath.exp(1j * math.pi * j / 8) for j, cj in enumerate(co)) * (2 ** (-k / 2))
            if any(abs(x - y) > 1e-9 for x, y in zip(ref, got)):
                bad += 1
    expect(bad == 0, f"QSim (ring C) agrees with an independent dense simulation on {len(cases)} random circuits x 8 basis states")


def part_pysem(sc):
    progs, _ = proggen.generate("quick", 3)
    picked = []
    for p in progs:
        s = p["src"]
        import re
        if "[" in re.sub(r"Qint\[\d+\]", "", s):
            continue
        if any(tok in s for tok in ("~", "Qchar", "Qfixed", "Qlist", "Tuple", "min(", "max(", "sum(", "len(", "int(", "float(", "all(", "any(")):
            continue
        picked.append(s)
    picked = picked[:250]
    cases, metas = [], []
    for k, s in enumerate(picked):
        try:
            d = pyast.program(s)
        except Exception:
            continue
        cases.append({"id": k, "kind": "pysem", "def": d, "fns": {"__none__": 0}})
        metas.append((k, s, d))
    v, _ = tlc.run_cases("Trace_Oracle", cases, sc, heap="4g")
    bad = rows = 0
    for k, s, d in metas:
        ns = {}
        plain = s
        import re
        plain = re.sub(r":\s*(Qint\[\d+\]|bool)", "", plain)
        plain = re.sub(r"->\s*(Qint\[\d+\]|bool)", "", plain)
        try:
            exec(plain, ns)
        except Exception:
            continue
        f = ns["f"]
        widths = [(a["tdesc"]["w"] if a["tdesc"]["t"] == "int" else 1, a["tdesc"]["t"]) for a in d["args"]["args"]]
        for row, st, val, det in v[k]:
            if st != "ok" or det != 99:
                continue
            args, off = [], 0
            for w, t in widths:
                x = (row >> off) & ((1 << w) - 1)
                args.append(bool(x) if t == "bool" else x)
                off += w
            try:
                ref = f(*args)
            except Exception:
                continue
            rows += 1
            rd = d["rdesc"]
            refv = (1 if ref else 0) if rd["t"] == "bool" else int(ref)
            if refv != val:
                bad += 1
    expect(bad == 0 and rows > 2000, f"PySem agrees with CPython on {rows} non-overflowing rows of {len(metas)} generated programs ({bad} differ)")


def part_refinement(sc):
    """the refinement bindings reject corrupted recordings (drift), accept the genuine ones"""
    from .drivers import c04, bitblast, c07
    from .artefact import run_jobs
    # BoolOpt: real applications of the pattern steps to a few trees; corruption = the post list of ANOTHER tree
    trees = [{"op": "or", "args": [{"op": "sym", "n": "a"}, {"op": "sym", "n": "b"}, {"op": "sym", "n": "c"}]},
             {"op": "ite", "args": [{"op": "sym", "n": "a"}, {"op": "sym", "n": "b"}, {"op": "not", "args": [{"op": "sym", "n": "c"}]}]},
             {"op": "implies", "args": [{"op": "and", "args": [{"op": "sym", "n": "a"}, {"op": "sym", "n": "b"}]}, {"op": "sym", "n": "c"}]}]
    lists = [{"key": f"t{k}", "origin": "selftest", "inputs": ["a", "b", "c"], "exprs": [["_ret", t]]} for k, t in enumerate(trees)]
    recs = [r for r in c04.apply_job({"lists": lists}) if r["status"] == "ok" and r["mode"] == "alone" and r["step"] in c04.MODELLED]
    good = [dict(id=k, inputs=r["inputs"], rets=r["rets"], pre=r["pre"], post=r["post"], step=r["step"]) for k, r in enumerate(recs)]
    v, _ = tlc.run_cases("Trace_BoolOpt", good, sc)
    expect(len(good) >= 3 and all(x == "conform" for x in v.values()), f"recorded optimizer steps conform to BoolOpt.tla ({len(good)})")
    bad = [dict(g, id=k, post=good[(k + 1) % len(good)]["post"]) for k, g in enumerate(good) if good[(k + 1) % len(good)]["post"] != g["post"]
           and g["step"] not in ("merge_expressions", "apply_cse")]
    v, _ = tlc.run_cases("Trace_BoolOpt", bad, sc)
    expect(len(bad) >= 2 and all(x != "conform" for x in v.values()), f"a step recorded with another tree's result is drift for BoolOpt.tla ({len(bad)})")
    # BitBlast: the real translator on a few cases; corruption = one result bit negated
    cases = [{"id": k, "case": c} for k, c in enumerate([
        {"op": "Add", "l": {"k": "sym", "w": 2}, "r": {"k": "sym", "w": 3}}, {"op": "Sub", "l": {"k": "sym", "w": 2}, "r": {"k": "const", "w": 6}},
        {"op": "Gt", "l": {"k": "sym", "w": 3}, "r": {"k": "sym", "w": 2}}, {"op": "Mult", "l": {"k": "sym", "w": 2}, "r": {"k": "const", "w": 6}}])]
    recs = bitblast.job({"cases": cases})
    v, _ = tlc.run_cases("Trace_BitBlast", recs, sc)
    expect(all(x == "conform" for x in v.values()), "the real integer operators conform to BitBlast.tla")
    badr = [dict(r, bits=[{"op": "not", "args": [r["bits"][0]]}] + r["bits"][1:]) for r in recs]
    v, _ = tlc.run_cases("Trace_BitBlast", badr, sc)
    expect(all(x.startswith("drift") for x in v.values()), "an operator result with one bit negated is drift for BitBlast.tla")
    # Inline: real call translations of a few PairGen pairs; corruption = the actual arguments recorded in swapped order
    cfg = "SPECIFICATION Spec\nCONSTANT Family = \"int2\"\nINVARIANT Emit\nCHECK_DEADLOCK FALSE\n"
    r = tlc.run_model("PairGen", cfg, sc, workers=4, timeout=600, tags=("P",))
    pairs = [json.loads(x[1]) for x in r["prints"]["P"]]
    pairs = [p for p in pairs if p["route"] == "defs"][:40]
    irecs = c07.inline_job({"pairs": list(enumerate(pairs))})
    v, _ = tlc.run_cases("Trace_Inline", irecs, sc)
    expect(len(irecs) >= 10 and all(x == "conform" for x in v.values()), f"real call translations conform to Inline.tla ({len(irecs)})")
    badi = [dict(x, actuals=x["actuals"][::-1]) for x in irecs if len(x["actuals"]) == 2 and x["actuals"][0] != x["actuals"][1] and not x["exc"]]
    v, _ = tlc.run_cases("Trace_Inline", badi, sc)
    nd = sum(1 for x in v.values() if x != "conform")
    expect(len(badi) >= 5 and nd >= len(badi) // 2, f"a call recorded with its actual arguments swapped is (mostly) not what Inline.tla predicts ({nd}/{len(badi)})")

    # BQM: real to_bqm calls; corruption = the recorded tree with its first two summands swapped for one (a dropped return bit)
    from .drivers import c18
    srcs = ["def f(a: bool, b: bool, c: bool) -> Tuple[bool, bool]:\n    return ((a and b) ^ c, a or c)",
            "def f(a: Qint[2], b: Qint[2]) -> Qint[2]:\n    return a + b",
            "def f(a: bool, b: bool, c: bool) -> Tuple[bool, bool, bool]:\n    return (a and b and c, a ^ b ^ c, not a)"]
    brecs = [c for c in c18.job({"srcs": srcs}) if c.get("status") == "ok" and "merged" in c]
    good = [{"id": k, "merged": c["merged"], "tree": c["trees"]["bqm"], "exc": c["exc"]} for k, c in enumerate(brecs)]
    v, _ = tlc.run_cases("Trace_BQM", good, sc)
    expect(len(good) == 3 and all(x == "conform" for x in v.values()), "recorded to_bqm trees conform to BQM.tla")
    badb = [dict(g, tree=g["tree"]["terms"][0]) for g in good if g["tree"]["k"] == "add"]
    v, _ = tlc.run_cases("Trace_BQM", badb, sc)
    expect(len(badb) >= 2 and all(x.startswith("drift") for x in v.values()), "a model tree with a return bit's term dropped is drift for BQM.tla")
    # AstPasses: real translations with tuple targets; corruption = the two recorded single assignments in swapped order
    from .drivers import c01
    res = c01.translate_job({"src": "def f(a: bool, b: bool) -> bool:\n    u, v = a, b\n    u, v = v, u ^ b\n    return u and v", "passes": True, "opts": ("default",)})
    pc = dict(res["passes"], id=0)
    v, _ = tlc.run_cases("Trace_AstPasses", [pc], sc)
    expect(v[0] == "conform", "the recorded ReplaceMultiTargetAssign step conforms to AstPasses.tla")
    import copy
    bad = copy.deepcopy(pc)
    for q in bad["passes"]:
        if q["name"] == "ReplaceMultiTargetAssign":
            q["def"]["body"][1], q["def"]["body"][2] = q["def"]["body"][2], q["def"]["body"][1]
    v, _ = tlc.run_cases("Trace_AstPasses", [bad], sc)
    expect(v[0].startswith("drift"), "a recorded ast with two of the generated assignments swapped is drift for AstPasses.tla")


def main():
    use_repo()
    with Scratch("selftest") as sc:
        part_binding(sc)
        part_refinement(sc)
        part_boolsem(sc)
        part_qsim(sc)
        part_pysem(sc)
    print("selftest:", "FAILED " + "; ".join(FAILS) if FAILS else "all parts passed")
    sys.exit(1 if FAILS else 0)


if __name__ == "__main__":
    main()

"""Drive the real library on one program and serialise what it hands back (the observable
artefact of a qlassf call).  Runs in worker processes with a per-program timeout because sympy's
simplify_logic / cse can blow up; a timeout is a skip, an exception inside qlassf() is a rejection."""
import signal
import traceback
from typing import get_args

from . import ser


class _Timeout(Exception):
    pass


def _alarm(signum, frame):
    raise _Timeout()


def type_desc(t):
    if t is bool:
        return {"t": "bool"}
    name = getattr(t, "__name__", "")
    if hasattr(t, "BIT_SIZE_INTEGER"):
        return {"t": "fixed", "i": t.BIT_SIZE_INTEGER, "f": t.BIT_SIZE_FRACTIONAL, "w": t.BIT_SIZE}
    if name == "Qchar":
        return {"t": "char", "w": 8}
    if hasattr(t, "BIT_SIZE"):
        return {"t": "int", "w": t.BIT_SIZE}
    ga = get_args(t)
    if ga:
        return {"t": "tuple", "elts": [type_desc(x) for x in ga]}
    raise ser.Unserialisable(f"type {t}")


def arg_desc(a):
    return {"name": a.name, "type": type_desc(a.ttype), "bits": list(a.bitvec)}


def optimizer(name):
    from qlasskit.boolopt import defaultOptimizer, fastOptimizer

    return {"default": defaultOptimizer, "fast": fastOptimizer}[name]


def describe(qf, with_circuit=True):
    """Observable state of a QlassF object."""
    d = {
        "name": qf.name,
        "args": [arg_desc(a) for a in qf.args],
        "ret": arg_desc(qf.returns),
        "inputs": [b for a in qf.args for b in a.bitvec],
        "rets": list(qf.returns.bitvec),
        "exprs": ser.ser_exprs(qf.expressions),
    }
    if with_circuit and hasattr(qf, "_qcircuit"):
        qc = qf.circuit()
        d.update({"gates": ser.ser_gates(qc.gates), "nq": int(qc.num_qubits), "qmap": ser.ser_qmap(qc)})
        d["input_qubits"] = [int(x) for x in qf.input_qubits]
        try:
            d["output_qubits"] = [int(x) for x in qf.output_qubits]
            d["output_qubits_exc"] = ""
        except Exception as e:  # observing an accepted object: a failed clause, not a rejection
            d["output_qubits"] = []
            d["output_qubits_exc"] = f"{type(e).__name__}: {e}"
    return d


def compile_job(job):
    """job: {"id", "src", "opt": default|fast, "uncs": [bool..], "compile": bool, "timeout": s}
    The source is translated once (to_compile=False) and then compiled once per requested
    uncompute setting with QlassF.compile().  Returns a list of artefacts, one per setting:
    {"id": (job id, unc), "status": ok|rejected|timeout|unserialisable|unbound|observe-failed, ...}"""
    from .common import use_repo

    use_repo()
    from qlasskit import qlassf

    uncs = job.get("uncs", [True])
    base = {"job": job["id"], "src": job["src"], "opt": job.get("opt", "default")}

    def all_(status, **kw):
        return [dict(base, id=f"{job['id']}/{int(u)}", unc=u, status=status, **kw) for u in uncs]

    signal.signal(signal.SIGALRM, _alarm)
    signal.alarm(int(job.get("timeout", 30)))
    try:
        qf = qlassf(job["src"], to_compile=False, bool_optimizer=optimizer(base["opt"]))
        if type(qf).__name__ == "UnboundQlassf":
            return all_("unbound")
        outs = []
        for u in uncs:
            out = dict(base, id=f"{job['id']}/{int(u)}", unc=u)
            if job.get("compile", True):
                try:
                    from qlasskit import _verif
                    events = []
                    _verif.set_sink(lambda ev, f: events.append((ev, f)))
                    try:
                        qf.compile("internal", uncompute=u)
                    finally:
                        _verif.set_sink(None)
                    out["ev"] = [{"k": "g", "v": f["anc"]} if ev == "qe.getfree" else {"k": "o", "v": f["order"]}
                                 for ev, f in events if ev in ("qe.getfree", "ic.operands")]
                    out["stmts"] = [[f["sym"], f["iret"], f["n_gates"]] for ev, f in events if ev == "ic.stmt"]
                    out["hooks_seen"] = sorted({ev for ev, _ in events})
                except _Timeout:
                    raise
                except AttributeError as e:
                    if "_verif" in str(e):
                        raise
                    out["status"] = "rejected"
                    out["exc"] = f"compile: {type(e).__name__}: {str(e)[:200]}"
                    outs.append(out)
                    continue
                except Exception as e:
                    out["status"] = "rejected"
                    out["exc"] = f"compile: {type(e).__name__}: {str(e)[:200]}"
                    outs.append(out)
                    continue
            try:
                out.update(describe(qf, with_circuit=job.get("compile", True)))
                out["status"] = "ok"
            except ser.Unserialisable as e:
                out["status"] = "unserialisable"
                out["exc"] = str(e)
            except _Timeout:
                raise
            except Exception as e:
                out["status"] = "observe-failed"
                out["exc"] = f"{type(e).__name__}: {e} | {traceback.format_exc()[-300:]}"
            outs.append(out)
        return outs
    except _Timeout:
        return all_("timeout")
    except Exception as e:
        return all_("rejected", exc=f"{type(e).__name__}: {str(e)[:200]}")
    finally:
        signal.alarm(0)


def run_jobs(fn, jobs, procs=16, chunksize=1):
    """Map fn over jobs in forked worker processes (fresh interpreter state is not required here;
    C10 uses real subprocesses instead)."""
    import multiprocessing as mp

    if not jobs:
        return []
    ctx = mp.get_context("fork")
    with ctx.Pool(processes=min(procs, max(1, len(jobs)))) as pool:
        return pool.map(fn, jobs, chunksize=chunksize)

"""Turn TLC verdicts into the VIOLATION / KNOWN-FINDING / evidence interface."""
import sys

from .common import write_replay, write_evidence, tier, MachineryError
from .findings import Findings


class Report:
    def __init__(self, pid, level):
        self.pid = pid
        self.level = level
        self.findings = Findings(pid)
        self.violations = []  # (case, clause, detail)
        self.known = {}  # finding id -> [descr]
        self.notes = []

    def fail(self, case, clause, detail="", src=None, key=None, triggers=()):
        """Record a failed contract clause on recorded behaviour of the real code."""
        e = self.findings.match(src=src, key=key, clause=clause, triggers=triggers)
        if e is not None:
            self.known.setdefault(e["id"], []).append(f"{clause} {detail}".strip())
            return "known"
        self.violations.append((case, clause, detail))
        return "violation"

    def finish(self, coverage, wall_s, assumptions=None, vacuity=None, extra=None):
        """Print the interface lines, write evidence, return the exit code."""
        for fid, ds in sorted(self.known.items()):
            e = [x for x in self.findings.entries if x["id"] == fid][0]
            print(f"KNOWN-FINDING: property={self.pid} {fid} {e['what']} [{len(ds)} case(s) this run, e.g. {ds[0][:120]}]")
        shown = 0
        for case, clause, detail in self.violations:
            path = write_replay(self.pid, {"property": self.pid, "clause": clause, "detail": detail, "case": case})
            if shown < 25:
                print(f"VIOLATION property={self.pid} replay={path}")
                print(f"  clause={clause} {detail}"[:400])
            shown += 1
        if shown > 25:
            print(f"  ... {shown - 25} more violations (replay files written)")
        cov = dict(coverage)
        cov["known_finding_hits"] = {k: len(v) for k, v in self.known.items()}
        if self.notes:
            cov["notes"] = self.notes[:50]
        write_evidence(self.pid, tier(), self.level, cov, wall_s, len(self.violations), assumptions, extra)
        if self.violations:
            return 1
        if vacuity:
            print(f"MACHINERY: vacuity floor not met: {vacuity}", file=sys.stderr)
            return 2
        return 0


def main_wrap(fn):
    try:
        rc = fn()
    except MachineryError as e:
        print(f"MACHINERY-FAILURE: {e}", file=sys.stderr)
        rc = 2
    sys.exit(rc)

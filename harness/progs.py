"""Program corpora fed to the real library.  Sources are *inputs*; everything observed about them
is recomputed from the tree under test on every run."""
import json
import os

from .common import VERIF


def tests_corpus():
    with open(os.path.join(VERIF, "corpus", "tests.json")) as f:
        rows = json.load(f)
    return [{"src": r["src"], "origin": "repo-tests"} for r in rows if not r.get("types")]


def corpus(pid, tier, seed):
    rp = os.environ.get("VERIF_REPLAY")
    if rp:  # ./check <id> --replay <file>: re-run exactly the recorded program
        with open(rp) as f:
            r = json.load(f)
        src = r.get("case", {}).get("src")
        if src:
            return [{"src": src.split("\n# ")[0] if pid in ("C07", "C08") else src, "origin": "replay"}]
    out = list(tests_corpus())
    try:
        from . import proggen
    except ImportError:
        return out
    out += proggen.programs(pid, tier, seed)
    return out

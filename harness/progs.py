"""Program corpora fed to the real library.  Sources are *inputs*; everything observed about them
is recomputed from the tree under test on every run."""
import json
import os

from .common import VERIF


def tests_corpus():
    with open(os.path.join(VERIF, "corpus", "tests.json")) as f:
        rows = json.load(f)
    return [{"src": r["src"], "origin": "repo-tests"} for r in rows if not r.get("types")]


def corpus(pid, tier, seed):
    rp = os.environ.get("VERIF_REPLAY")
    if rp:  # ./check <id> --replay <file>: re-run exactly the recorded program
        with open(rp) as f:
            r = json.load(f)
        src = r.get("case", {}).get("src")
        if src:
            return [{"src": src.split("\n# ")[0] if pid in ("C07", "C08") else src, "origin": "replay"}]
    out = list(tests_corpus())
    try:
        from . import proggen
    except ImportError:
        return out
    gen = proggen.programs(pid, tier, seed)
    if tier != "quick" and pid in ("C02", "C03", "C05", "C06") and len(gen) > 5000:
        import random
        rng = random.Random(seed)
        gen = list(gen)
        rng.shuffle(gen)
        gen = gen[:5000]
    out += gen
    if pid in ("C03", "C06"):
        out += exprgen_programs(tier, seed)
    return out


def exprgen_programs(tier, seed):
    """boolean programs  return <tree>  for the trees enumerated by TLC from spec/ExprGen.tla (predicates: the
    natural inputs of the synthesis checks, in particular of the xor-oracle property)"""
    import random
    from .common import Scratch
    from .drivers.c04 import gen_trees
    from .drivers.mcsynth import program_of

    rng = random.Random(seed)
    with Scratch("exprgen") as sc:
        trees, _ = gen_trees(sc, 4 if tier == "quick" else 5, 150 if tier == "quick" else 1500, 9)
    rng.shuffle(trees)
    trees = trees[: (350 if tier == "quick" else 5000)]
    out = []
    for k, t in enumerate(trees):
        out.append({"src": program_of(t, k, "ret"), "origin": "ExprGen-program"})
        if k % 4 == 0:
            out.append({"src": program_of(t, k, "var"), "origin": "ExprGen-program"})
    return out

"""Program corpora fed to the real library.  Sources are *inputs*; everything observed about them
is recomputed from the tree under test on every run."""
import json
import os

from .common import VERIF


def tests_corpus():
    with open(os.path.join(VERIF, "corpus", "tests.json")) as f:
        rows = json.load(f)
    return [{"src": r["src"], "origin": "repo-tests"} for r in rows if not r.get("types")]


def corpus(pid, tier, seed):
    rp = os.environ.get("VERIF_REPLAY")
    if rp:  # ./check <id> --replay <file>: re-run exactly the recorded program
        with open(rp) as f:
            r = json.load(f)
        src = r.get("case", {}).get("src")
        if src:
            return [{"src": src.split("\n# ")[0] if pid in ("C07", "C08") else src, "origin": "replay"}]
    out = list(tests_corpus())
    try:
        from . import proggen
    except ImportError:
        return out
    gen = proggen.programs(pid, tier, seed)
    if tier != "quick" and pid in ("C02", "C03", "C05", "C06") and len(gen) > 5000:
        import random
        rng = random.Random(seed)
        gen = list(gen)
        rng.shuffle(gen)
        gen = gen[:5000]
    out += gen
    if pid in ("C03", "C06"):
        out += exprgen_programs(tier, seed)
    if pid == "C18":
        out += exprgen_programs(tier, seed, pairs=True) + small_int_programs()
    only = os.environ.get("VERIF_ONLY_ORIGIN")   # development aid: one generator layer / family, uncapped
    if only:
        out = [p for p in proggen.generate(tier, seed)[0] + out if p["origin"].startswith(only)]
    return out


def small_int_programs():
    """functions over one or two Qint[2] (the sizes a quadratic model is enumerable for): every comparison against
    every constant, alone and in pairs of constraints, and the arithmetic operators"""
    out = []
    cmps = ["==", "!=", "<", "<=", ">", ">="]
    for op in cmps:
        for k in range(4):
            out.append(f"def f(a: Qint[2]) -> bool:\n    return a {op} {k}")
    for op1 in ("!=", "<", ">="):
        for op2 in ("!=", "==", ">"):
            for k1 in range(1, 4):
                for k2 in range(0, 3):
                    out.append(f"def f(a: Qint[2]) -> Tuple[bool, bool]:\n    return (a {op1} {k1}, a {op2} {k2})")
    for op in cmps:
        out.append(f"def f(a: Qint[2], b: Qint[2]) -> bool:\n    return a {op} b")
        out.append(f"def f(a: Qint[2], b: Qint[2], c: bool) -> Tuple[bool, bool]:\n    return (a {op} b, c or a {op} 1)")
    for op in ("+", "-", "*", "&", "|", "^"):
        out.append(f"def f(a: Qint[2], b: Qint[2]) -> Qint[2]:\n    return a {op} b")
        out.append(f"def f(a: Qint[2], b: Qint[2]) -> bool:\n    return (a {op} b) != 1")
    # n-ary operators as the front end hands them over (parities, conjunctions, disjunctions of 3..6 bits, mixed signs)
    names = ["a", "b", "c", "d", "e", "g"]
    for n in range(3, 7):
        sig = ", ".join(f"{v}: bool" for v in names[:n])
        for op, j in (("^", " ^ "), ("and", " and "), ("or", " or ")):
            out.append(f"def f({sig}) -> bool:\n    return " + j.join(names[:n]))
            out.append(f"def f({sig}) -> bool:\n    return " + j.join((f"(not {v})" if k % 2 else v) for k, v in enumerate(names[:n])))
        out.append(f"def f(l: Qlist[bool, {n}]) -> bool:\n    return " + " ^ ".join(f"l[{k}]" for k in range(n)))
        out.append(f"def f(l: Qlist[bool, {n}]) -> Tuple[bool, bool]:\n    return (" + " ^ ".join(f"l[{k}]" for k in range(n)) + ", l[0] or l[1])")
    for src in ("def f(a: Qint[3], b: Qint[3]) -> Qint[3]:\n    return a * b + a", "def f(a: Qint[3], b: Qint[3]) -> bool:\n    return a + b == 5",
                "def f(a: Qint[2], b: Qint[2], c: Qint[2]) -> Qint[2]:\n    return a + b + c", "def f(a: Qint[3]) -> Qint[3]:\n    return a * 3 + 1"):
        out.append(src)
    # a function WITHOUT zeros whose value repeats one bit expression on several return bits: the multiplicity decides the minimisers
    for ret in ("(n, n, a, b)", "(a, n, b, n)", "(n, a, n, b, n)"):
        tt = ", ".join(["bool"] * (ret.count(",") + 1))
        out.append(f"def f(a: bool, b: bool) -> Tuple[{tt}]:\n    n = not (a or b)\n    return {ret}")
    out.append("def f(a: bool, b: bool, c: bool) -> Tuple[bool, bool, bool, bool, bool]:\n    n = not (a or b or c)\n    return (n, n, a ^ b, b ^ c, n)")
    out.append("def f(a: Qint[2]) -> Tuple[bool, bool, bool, bool]:\n    z = a == 0\n    return (z, z, a[0], a[1])")
    return [{"src": s, "origin": "small-int"} for s in out]


def exprgen_programs(tier, seed, pairs=False):
    """boolean programs  return <tree>  for the trees enumerated by TLC from spec/ExprGen.tla (predicates: the
    natural inputs of the synthesis checks, in particular of the xor-oracle property)"""
    import random
    from .common import Scratch
    from .drivers.c04 import gen_trees
    from .drivers.mcsynth import program_of

    rng = random.Random(seed)
    with Scratch("exprgen") as sc:
        trees, _ = gen_trees(sc, 4 if tier == "quick" else 5, 150 if tier == "quick" else 1500, 9)
    rng.shuffle(trees)
    trees = trees[: (350 if tier == "quick" else 5000)]
    out = []
    for k, t in enumerate(trees):
        out.append({"src": program_of(t, k, "ret"), "origin": "ExprGen-program"})
        if k % 4 == 0:
            out.append({"src": program_of(t, k, "var"), "origin": "ExprGen-program"})
    if pairs:  # two predicates returned together (no input need make both false)
        from .drivers.mcsynth import tree_src
        for k in range(0, len(trees) - 1, 2):
            out.append({"src": "def f(a: bool, b: bool, c: bool) -> Tuple[bool, bool]:\n"
                               f"    return ({tree_src(trees[k])}, {tree_src(trees[k + 1])})", "origin": "ExprGen-pair"})
            if k % 3 == 0:  # the same bit expression on several return bits (its weight in the energy is its multiplicity)
                out.append({"src": "def f(a: bool, b: bool, c: bool) -> Tuple[bool, bool, bool, bool]:\n"
                                   f"    return ({tree_src(trees[k])}, {tree_src(trees[k])}, {tree_src(trees[k + 1])}, not ({tree_src(trees[k + 1])}))",
                            "origin": "ExprGen-pair"})
    return out

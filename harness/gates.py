"""Gate strings printed by spec/GateGen.tla -> real QCircuit objects (and the generator runner)."""
import json
import math

from . import tlc


def build_circuit(gs, nq, enhanced=False, share=False):
    """share=True: ONE gate object per kind of gate is appended wherever that kind occurs (x = gates.X() made once and
    appended many times): applied gates on the same wires then compare equal"""
    from qlasskit import QCircuit
    from qlasskit.qcircuit import QCircuitEnhanced, gates as G

    qc = (QCircuitEnhanced if enhanced else QCircuit)(nq)
    objs = {}
    for g in gs:
        if not share:
            apply_gate(qc, g)
            continue
        tmp = QCircuit(nq)
        apply_gate(tmp, g)
        go, w, p = tmp.gates[-1]
        go = objs.setdefault((g["cls"], len(w), p), go)
        qc.append(go, list(w), p)
    return qc


def apply_gate(qc, g):
    from qlasskit.qcircuit import gates as G

    cls, w = g["cls"], g["w"]
    if cls == "X":
        qc.x(w[0])
    elif cls == "CX":
        qc.cx(w[0], w[1])
    elif cls == "CCX":
        qc.ccx(w[0], w[1], w[2])
    elif cls == "MCX":
        qc.mcx(list(w[:-1]), w[-1])
    elif cls == "MCtrlX":
        qc.mctrl(G.X(), list(w[:-1]), w[-1])
    elif cls == "MCtrlZ":
        qc.mctrl(G.Z(), list(w[:-1]), w[-1])
    elif cls in ("H", "Z", "S", "T", "Y"):
        getattr(qc, cls.lower())(w[0])
    elif cls == "CZ":
        qc.cz(w[0], w[1])
    elif cls == "Swap":
        qc.swap(w[0], w[1])
    elif cls == "CP":
        qc.cp(g["m"] * 2 * math.pi / 16, w[0], w[1])
    elif cls == "P":
        qc.append(G.P(), [w[0]], g["m"] * 2 * math.pi / 16)
    elif cls == "Barrier":
        qc.barrier()
    elif cls == "I":
        qc.append(G.I(), [w[0]])
    else:
        raise ValueError(cls)


def gen_strings(sc, family, nq, maxlen, minlen=1, sim=None, depth=None, sd=0, workers=8):
    cfg = (f"SPECIFICATION Spec\nCONSTANTS NQ = {nq}\n MaxLen = {depth if sim else maxlen}\n MinLen = {minlen}\n"
           f" Family = \"{family}\"\nINVARIANT Emit\nCHECK_DEADLOCK FALSE\n")
    extra = ()
    if sim:
        extra = ("-simulate", f"num={sim}", "-depth", str(depth + 1), "-seed", str(sd))
    r = tlc.run_model("GateGen", cfg, sc, workers=(1 if sim else workers), timeout=1200, tags=("G",), extra=extra, heap="6g")
    return [json.loads(v[1]) for v in r["prints"]["G"]], r["stats"]

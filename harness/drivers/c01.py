"""C01: the expressions mean what the Python source means (spec/PySem.tla + Trace_C01.tla)."""
import json
import signal

from .. import tlc, ser, progs, pyast
from ..artefact import run_jobs, arg_desc, optimizer
from ..common import Scratch, Timer, tier, seed, use_repo, MachineryError, vlog
from ..report import Report


class _TO(Exception):
    pass


def _alarm(*a):
    raise _TO()


NONE = {"__none__": 0}


def translate_job(job):
    """-> list of cases (one per optimizer) or a status record"""
    use_repo()
    from qlasskit import qlassf

    src = job["src"]
    out = {"src": src, "origin": job.get("origin", ""), "cases": [], "status": "ok"}
    try:
        d = pyast.program(src)
    except Exception as e:
        out["status"] = "unparsable"
        return out
    signal.signal(signal.SIGALRM, _alarm)
    from qlasskit import _verif
    passes = []

    def sink(ev, f):
        if ev == "a2a.pass" and f["name"] != "input" and not sink.done:
            try:
                j = ser.ser_ast(f["tree"])
                pyast.copy_types(d, j)
                passes.append({"name": f["name"], "def": j})
            except Exception:
                pass
            if f["name"] == "ConstantFolder2":
                sink.done = True  # only the outermost function, once

    sink.done = False
    for opt in job.get("opts", ("default", "fast")):
        signal.alarm(int(job.get("timeout", 30)))
        try:
            _verif.set_sink(sink if job.get("passes") else None)
            try:
                qf = qlassf(src, to_compile=False, bool_optimizer=optimizer(opt))
            finally:
                _verif.set_sink(None)
            if type(qf).__name__ == "UnboundQlassf":
                out["status"] = "unbound"
                return out
            c = {"def": d, "fns": NONE, "params": NONE,
                 "inputs": [b for a in qf.args for b in a.bitvec],
                 # return bits as truth_table_header() reports them: the last output_size definitions
                 "rets": [s.name for s, _ in qf.expressions[-qf.output_size:]],
                 "exprs": ser.ser_exprs(qf.expressions), "opt": opt}
            out["cases"].append(c)
        except _TO:
            out["status"] = "timeout"
            return out
        except ser.Unserialisable:
            out["status"] = "unserialisable"
            return out
        except Exception as e:
            out["status"] = "rejected"
            out["exc"] = f"{type(e).__name__}: {str(e)[:150]}"
            return out
        finally:
            signal.alarm(0)
    if passes:
        out["passes"] = {"def0": d, "fns": NONE, "passes": passes}
    return out


def judge(pid, rep, results, sc, maxbits=11, extra_cov=None):
    """shared by C01 / C07 / C08: build cases, run TLC, classify"""
    cases, meta = [], {}
    st = {}
    for r in results:
        st[r["status"]] = st.get(r["status"], 0) + 1
        for c in r["cases"]:
            if len(c["inputs"]) > maxbits:
                st["too-wide"] = st.get("too-wide", 0) + 1
                continue
            c = dict(c)
            c["id"] = len(cases)
            meta[c["id"]] = (r, c.pop("opt"), c.pop("note", ""))
            cases.append(c)
    vlog("translated", st, "cases", len(cases))
    verdicts, stats = tlc.run_cases("Trace_C01", cases, sc, timeout=2400, heap="4g")
    vst, skips, rows, bits, trigs = {}, {}, 0, 0, {}
    nontrivial = set()
    for c in cases:
        v = verdicts[c["id"]]
        r, opt, note = meta[c["id"]]
        vst[v[0]] = vst.get(v[0], 0) + 1
        if v[0] == "skip":
            skips[v[1]] = skips.get(v[1], 0) + 1
        elif v[0] == "ok":
            rows += v[2]
            bits += v[3]
            for t in v[4]["__set__"]:
                trigs[t] = trigs.get(t, 0) + 1
            if v[2] >= 4:
                nontrivial.add(r["src"])
        elif v[0] == "fail":
            if v[1] == "value-differs-from-python-meaning":
                trigsets = [set(x["__set__"]) for x in v[4]["__set__"]]
                common = set.union(*trigsets) if trigsets else set()
                # explained only if EVERY failing row went through a listed deviation
                open_tr = {e["match"].get("trigger") for e in rep.findings.entries if e.get("status") == "open"}
                explained = all(ts & open_tr for ts in trigsets)
                tr = tuple(sorted(common & open_tr)) if explained else ()
                rep.fail({"src": r["src"], "opt": opt, "note": note, "exprs": c["exprs"]}, v[1],
                         f"row={v[2]} bit={v[3]} failing_rows={v[5]} opt={opt} triggers={sorted(common)} {note} src={r['src']!r}",
                         src=r["src"], key=opt, triggers=tr)
            else:
                rep.fail({"src": r["src"], "opt": opt, "note": note, "exprs": c["exprs"]}, v[1],
                         f"{v[2]} {v[3]} {v[5]} opt={opt} {note} src={r['src']!r}", src=r["src"], key=opt)
    cov = {
        "programs": len({meta[c["id"]][0]["src"] for c in cases}), "disagreements_checked": rows,
        "samples": [{"src": meta[c["id"]][0]["src"], "opt": meta[c["id"]][1], "verdict": verdicts[c["id"]][:4]}
                    for c in cases[:: max(1, len(cases) // 4)][:4]],
        "evaluations": len(cases), "distinct_nontrivial": len(nontrivial),
        "rule": "one case = (program, optimizer); TLC runs the reference interpreter on every input row and compares every determined return bit; non-trivial = at least 4 rows compared",
        "rows_compared": rows, "bits_compared": bits, "translate_status": st, "verdicts": vst,
        "skipped_unmodelled": skips, "deviation_triggers_seen_on_agreeing_cases": trigs,
        "states": stats["distinct"], "transitions": stats["generated"],
    }
    if extra_cov:
        cov.update(extra_cov)
    return cov, vst


def run(pid):
    T0 = Timer()
    t = tier()
    rep = Report(pid, "translation_validation")
    srcs = progs.corpus("C01", t, seed())
    jobs = [{"src": s["src"], "origin": s["origin"], "timeout": 30, "passes": True} for s in srcs]
    results = run_jobs(translate_job, jobs)
    with Scratch("C01") as sc:
        cov, vst = judge("C01", rep, results, sc)
        vlog("judged", vst)
        # the AST passes as state transformers (spec/Trace_Passes.tla): for every failing program and a seeded
        # sample of the others, the first pass after which the reference meaning differs from the source's
        import random
        rng = random.Random(seed())
        failing = {v[0]["src"] for v in rep.violations if isinstance(v[0], dict) and "src" in v[0]}
        pool = [r for r in results if r.get("passes") and len(r["cases"]) > 0 and len(r["cases"][0]["inputs"]) <= 9]
        rng.shuffle(pool)
        chosen = [r for r in pool if r["src"] in failing] + [r for r in pool if r["src"] not in failing][: (150 if t == "quick" else 1500)]
        pcases = [dict(r["passes"], id=k) for k, r in enumerate(chosen)]
        pverd, _ = tlc.run_cases("Trace_Passes", pcases, sc, timeout=2400, heap="4g")
        vlog("passes", len(pcases))
        pst, loc = {}, {}
        for k, r in enumerate(chosen):
            v = pverd[k]
            key = v[0] if v[0] != "differs" else f"differs-after:{v[1]}"
            pst[key] = pst.get(key, 0) + 1
            if v[0] == "differs":
                loc[r["src"]] = v[1]
        # the transcribed passes (spec/AstPasses.tla): the recorded ast after ReplaceMultiTargetAssign must be the predicted one;
        # programs with tuple targets are taken first (drift is evidence only)
        multi = [r for r in pool if r["src"] not in {x["src"] for x in chosen} and "," in r["src"] and " = " in r["src"]][: (120 if t == "quick" else 1500)]
        acases = [dict(r["passes"], id=k) for k, r in enumerate(chosen + multi)]
        averd, _ = tlc.run_cases("Trace_AstPasses", acases, sc, timeout=1800, heap="4g") if acases else ({}, {})
        ast_ref = {"spec": "AstPasses.tla via Trace_AstPasses", "programs": len(acases), "verdicts": {}, "drift_samples": []}
        for k, r in enumerate(chosen + multi):
            v = averd[k]
            ast_ref["verdicts"][v] = ast_ref["verdicts"].get(v, 0) + 1
            if v.startswith("drift") and len(ast_ref["drift_samples"]) < 5:
                ast_ref["drift_samples"].append({"src": r["src"], "verdict": v})
        vlog("ast passes refinement", ast_ref["verdicts"])
        cov["ast_passes_refinement"] = ast_ref
        cov["ast_passes"] = {"programs": len(chosen), "verdicts": pst,
                             "localised_failures": [{"src": s, "first_pass_changing_the_meaning": p} for s, p in list(loc.items())[:20]]}
        # the integer operators as a refinement model (spec/BitBlast.tla): model-checked against arithmetic, then the
        # real translate_expression compared with it on the same cases
        from . import bitblast
        cov["integer_operators"] = bitblast.run(sc, t == "quick")
        for case, clause, detail in rep.violations:
            if isinstance(case, dict) and case.get("src") in loc:
                case["first_ast_pass_changing_the_meaning"] = loc[case["src"]]
    vac = None
    if vst.get("ok", 0) < 100:
        vac = f"only {vst.get('ok', 0)} cases judged ok"
    return rep.finish(cov, T0.s(), assumptions=[
        "spec/PySem.tla is the reference meaning of the documented subset (typing rules transcribed from the documentation)",
        "harness/pyast.py parses annotations into type descriptors"], vacuity=vac)

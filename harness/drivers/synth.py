"""C02 / C03 / C06: artefacts of real compiles, judged by TLC (spec/Trace_Artefact.tla)."""
import json
import os

from .. import artefact, tlc, progs
from ..common import is_ret,  Scratch, Timer, tier, seed, MachineryError
from ..report import Report

LEVEL = "model_checking"


MC = {}


def synth_case(cid, inputs, exprs, retbits, unc, ev, gates, nq, qmap):
    names = [n for n, _ in exprs]
    return {"id": cid, "inputs": inputs, "exprs": exprs, "unc": unc, "ev": ev,
            "rets": sorted({n for n in names if is_ret(n)}),
            "temps": sorted({n for n in names if n.startswith("__")}),
            "retbits": retbits, "gates": [{"w": g["w"]} for g in gates], "nq": nq, "qmap": qmap}


def attribute(sc, scases):
    """refinement binding for a set of recorded compiles: {id: (verdict, triggers)} where triggers name the unsound
    steps the transcribed algorithm itself reports, and are empty unless it reproduces the circuit exactly"""
    sverd, _ = tlc.run_cases("Trace_Synth", scases, sc, timeout=2400, heap="4g")
    out = {}
    for c in scases:
        sv = sverd[c["id"]]
        out[c["id"]] = (sv, tuple("synth-model:" + f for f in sorted(sv[1]["__set__"])) if sv[0] == "conform" else ())
    return out


def build_jobs(pid, t):
    """Every program x {default, fast} x {unc on, off} (C02); unc on only for C03/C06."""
    sources = progs.corpus(pid, t, seed())
    if pid == "C02" and not os.environ.get("VERIF_REPLAY"):
        # refinement layer explored by TLC (spec/MC_Synth.tla): boolean programs from ExprGen; every program is
        # also compiled for real below, the lists on which the MODEL breaks an invariant first of all
        import random
        from . import mcsynth
        from .c04 import gen_trees
        rng = random.Random(seed())
        with Scratch("C02mc") as sc:
            trees, _ = gen_trees(sc, 4 if t == "quick" else 5, 0, 9)
            rng.shuffle(trees)
            trees = trees[: (400 if t == "quick" else 4000)]
            res, bad_srcs, all_srcs = mcsynth.run(sc, trees, rng, t == "quick")
        MC.update(res)
        rng.shuffle(all_srcs)
        extra = bad_srcs + [s for s in all_srcs if s not in set(bad_srcs)][: (150 if t == "quick" else 3000)]
        sources = sources + [{"src": s, "origin": "ExprGen-program"} for s in extra]
    jobs = []
    for k, s in enumerate(sources):
        for opt in ("default", "fast"):
            jobs.append({"id": len(jobs), "src": s["src"], "origin": s["origin"], "opt": opt,
                         "uncs": [True, False] if pid == "C02" else [True], "timeout": 40})
    return jobs


def run(pid):
    T = Timer()
    t = tier()
    rep = Report(pid, LEVEL)
    jobs = build_jobs(pid, t)
    res = artefact.run_jobs(artefact.compile_job, jobs)
    origin = {j["id"]: j["origin"] for j in jobs}
    arts = [a for r in res for a in r]
    st = {}
    for a in arts:
        st[a["status"]] = st.get(a["status"], 0) + 1
    cases = []
    for a in arts:
        a["origin"] = origin[a["job"]]
        if a["status"] == "observe-failed":
            rep.fail(a, "observing-accepted-object-raised", a.get("exc", ""), src=a["src"])
            continue
        if a["status"] != "ok":
            continue
        c = {k: a[k] for k in ("id", "inputs", "rets", "exprs", "gates", "nq", "qmap", "unc")}
        c["isbool"] = a["ret"]["type"]["t"] == "bool"
        if len(c["inputs"]) > (11 if pid != "C06" else 10):
            st["too-wide"] = st.get("too-wide", 0) + 1
            continue
        cases.append(c)
    byid = {a["id"]: a for a in arts}
    with Scratch(pid) as sc:
        verdicts, stats = tlc.run_cases("Trace_Artefact", cases, sc, env={"PROP": pid}, timeout=1500)
        # refinement binding: the transcribed synthesis algorithm (spec/Synth.tla), fed with the recorded
        # choices, must predict the recorded circuit; judged for every case that fails a clause and for a
        # seeded sample of the others
        import random
        rng = random.Random(seed())
        failing = [c for c in cases if verdicts[c["id"]][0] == "fail"]
        others = [c for c in cases if verdicts[c["id"]][0] != "fail" and len(c["inputs"]) <= 9]
        rng.shuffle(others)
        scases = []
        for c in failing + others[: (400 if t == "quick" else 4000)]:
            a = byid[c["id"]]
            if "ev" not in a:
                raise MachineryError("hook events missing: is QLASSKIT_VERIF honoured by the tree under test?")
            names = [n for n, _ in a["exprs"]]
            scases.append({"id": c["id"], "inputs": c["inputs"], "exprs": c["exprs"], "unc": c["unc"], "ev": a["ev"],
                           "rets": sorted({n for n in names if is_ret(n)}),
                           "temps": sorted({n for n in names if n.startswith("__")}),
                           "retbits": c["rets"], "gates": [{"w": g["w"]} for g in c["gates"]], "nq": c["nq"], "qmap": c["qmap"]})
        sverd, sstats = tlc.run_cases("Trace_Synth", scases, sc, timeout=2400, heap="4g")
    nontrivial = set()
    rows = 0
    vst = {}
    for c in cases:
        v = verdicts[c["id"]]
        vst[v[0]] = vst.get(v[0], 0) + 1
        a = byid[c["id"]]
        if v[0] == "fail":
            sv = sverd[c["id"]]
            # a failure is attributed to the (known) synthesis algorithm only if the transcribed algorithm
            # reproduces the recorded circuit exactly AND itself reports the unsound step
            trig = tuple("synth-model:" + f for f in sorted(sv[1]["__set__"])) if sv[0] == "conform" else ()
            rep.fail({"src": a["src"], "opt": a["opt"], "unc": a["unc"], "origin": a["origin"],
                      "exprs": a["exprs"], "gates": a["gates"], "qmap": a["qmap"], "model": sv},
                     v[1], f"at={v[2]} row={v[3]} opt={a['opt']} unc={a['unc']} model={sv[0]}:{sv[1]} src={a['src']!r}",
                     src=a["src"], key=f"{a['opt']}/{a['unc']}", triggers=trig)
        elif v[0] == "ok":
            rows += v[3]
            if len(c["gates"]) >= 2 and c["nq"] > len(c["inputs"]) + 1:
                nontrivial.add((a["src"], a["opt"], a["unc"]))
    samples = [{"src": byid[c["id"]]["src"], "opt": byid[c["id"]]["opt"], "unc": c["unc"], "n_gates": len(c["gates"]),
                "nq": c["nq"], "verdict": verdicts[c["id"]]} for c in cases[:: max(1, len(cases) // 4)][:4]]
    cov = {
        "states": stats["distinct"], "transitions": stats["generated"],
        "traces_validated_against_impl": len(cases),
        "samples": samples,
        "evaluations": len(cases), "distinct_nontrivial": len(nontrivial),
        "rule": "one case = one real compile (program x optimizer x uncompute); non-trivial = >=2 gates and >=1 ancilla/scratch qubit; every case is checked on all 2^n input rows by TLC",
        "input_rows_checked": rows,
        "compile_status": st, "verdict_status": vst, "programs": len({j['src'] for j in jobs}),
        "model_checking_of_Synth": MC,
        "refinement": {"compiles_replayed_through_Synth_model": len(scases),
                       "conform": sum(1 for x in sverd.values() if x[0] == "conform"),
                       "drift": sorted({f"{x[1]}" for x in sverd.values() if x[0] == "drift"})[:10],
                       "drift_count": sum(1 for x in sverd.values() if x[0] == "drift"),
                       "model_flags": {f: sum(1 for x in sverd.values() if x[0] == "conform" and f in x[1]["__set__"])
                                       for f in ("inline-uncompute-released-a-non-zero-ancilla", "uncompute_all-left-a-qubit-non-zero")}},
        "tlc_jvms": stats["jvms"],
    }
    vac = None
    if len(cases) < 50 or len(nontrivial) < 20:
        vac = f"only {len(cases)} cases / {len(nontrivial)} non-trivial"
    return rep.finish(cov, T.s(), assumptions=[
        "TLC evaluates spec/BoolSem.tla + spec/Circuit.tla (trusted contract layer)",
        "harness/ser.py serialises sympy trees and gate lists faithfully",
    ], vacuity=vac)

"""C02 / C03 / C06: artefacts of real compiles, judged by TLC (spec/Trace_Artefact.tla)."""
import json
import os

from .. import artefact, tlc, progs
from ..common import Scratch, Timer, tier, seed, MachineryError
from ..report import Report

LEVEL = "model_checking"


def build_jobs(pid, t):
    """Every program x {default, fast} x {unc on, off} (C02); unc on only for C03/C06."""
    sources = progs.corpus(pid, t, seed())
    jobs = []
    for k, s in enumerate(sources):
        for opt in ("default", "fast"):
            jobs.append({"id": len(jobs), "src": s["src"], "origin": s["origin"], "opt": opt,
                         "uncs": [True, False] if pid == "C02" else [True], "timeout": 40})
    return jobs


def run(pid):
    T = Timer()
    t = tier()
    rep = Report(pid, LEVEL)
    jobs = build_jobs(pid, t)
    res = artefact.run_jobs(artefact.compile_job, jobs)
    origin = {j["id"]: j["origin"] for j in jobs}
    arts = [a for r in res for a in r]
    st = {}
    for a in arts:
        st[a["status"]] = st.get(a["status"], 0) + 1
    cases = []
    for a in arts:
        a["origin"] = origin[a["job"]]
        if a["status"] == "observe-failed":
            rep.fail(a, "observing-accepted-object-raised", a.get("exc", ""), src=a["src"])
            continue
        if a["status"] != "ok":
            continue
        c = {k: a[k] for k in ("id", "inputs", "rets", "exprs", "gates", "nq", "qmap", "unc")}
        c["isbool"] = a["ret"]["type"]["t"] == "bool"
        if len(c["inputs"]) > (11 if pid != "C06" else 10):
            st["too-wide"] = st.get("too-wide", 0) + 1
            continue
        cases.append(c)
    byid = {a["id"]: a for a in arts}
    with Scratch(pid) as sc:
        verdicts, stats = tlc.run_cases("Trace_Artefact", cases, sc, env={"PROP": pid}, timeout=1500)
    nontrivial = set()
    rows = 0
    vst = {}
    for c in cases:
        v = verdicts[c["id"]]
        vst[v[0]] = vst.get(v[0], 0) + 1
        a = byid[c["id"]]
        if v[0] == "fail":
            rep.fail({"src": a["src"], "opt": a["opt"], "unc": a["unc"], "origin": a["origin"],
                      "exprs": a["exprs"], "gates": a["gates"], "qmap": a["qmap"]},
                     v[1], f"at={v[2]} row={v[3]} opt={a['opt']} unc={a['unc']} src={a['src']!r}",
                     src=a["src"], key=f"{a['opt']}/{a['unc']}")
        elif v[0] == "ok":
            rows += v[3]
            if len(c["gates"]) >= 2 and c["nq"] > len(c["inputs"]) + 1:
                nontrivial.add((a["src"], a["opt"], a["unc"]))
    samples = [{"src": byid[c["id"]]["src"], "opt": byid[c["id"]]["opt"], "unc": c["unc"], "n_gates": len(c["gates"]),
                "nq": c["nq"], "verdict": verdicts[c["id"]]} for c in cases[:: max(1, len(cases) // 4)][:4]]
    cov = {
        "states": stats["distinct"], "transitions": stats["generated"],
        "traces_validated_against_impl": len(cases),
        "samples": samples,
        "evaluations": len(cases), "distinct_nontrivial": len(nontrivial),
        "rule": "one case = one real compile (program x optimizer x uncompute); non-trivial = >=2 gates and >=1 ancilla/scratch qubit; every case is checked on all 2^n input rows by TLC",
        "input_rows_checked": rows,
        "compile_status": st, "verdict_status": vst, "programs": len({j['src'] for j in jobs}),
        "tlc_jvms": stats["jvms"],
    }
    vac = None
    if len(cases) < 50 or len(nontrivial) < 20:
        vac = f"only {len(cases)} cases / {len(nontrivial)} non-trivial"
    return rep.finish(cov, T.s(), assumptions=[
        "TLC evaluates spec/BoolSem.tla + spec/Circuit.tla (trusted contract layer)",
        "harness/ser.py serialises sympy trees and gate lists faithfully",
    ], vacuity=vac)

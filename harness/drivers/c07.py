"""C07: calling a compiled function from another is function composition (spec/PairGen.tla generates
the (callee, caller) pairs; spec/PySem.tla applies the callee to the actual argument values)."""
import json
import random
import signal

from .. import tlc, ser, pyast, render
from ..artefact import run_jobs, optimizer, arg_desc
from ..common import Scratch, Timer, tier, seed, use_repo, vlog
from ..report import Report
from .c01 import NONE, _TO, _alarm, judge

FAMILIES = ["bool2", "bool2x2", "bool3", "int1", "int2", "tuple", "list", "shadow", "redef", "oraclize"]


def fingerprint(qf):
    return {"name": qf.name, "args": [arg_desc(a) for a in qf.args], "ret": arg_desc(qf.returns),
            "exprs": ser.ser_exprs(qf.expressions)}


def job(j):
    use_repo()
    from qlasskit import qlassf
    from qlasskit.algorithms import oraclize

    pair = j["pair"]
    out = {"src": "", "origin": "PairGen-" + j["family"], "cases": [], "status": "ok"}
    try:
        callee_src = render.source(pair["callee"])
        body = [s for s in pair["caller"]["body"]]
        caller_src = render.source(pair["caller"])
        out["src"] = callee_src + "\n# route=" + pair["route"] + "\n" + caller_src
        callee_def = pyast.program(callee_src)
        caller_def = pyast.program(caller_src)
    except Exception as e:
        out["status"] = "unrenderable"
        out["exc"] = str(e)
        return out
    signal.signal(signal.SIGALRM, _alarm)
    for opt in ("default", "fast"):
        signal.alarm(40)
        try:
            fns = NONE
            fpb = fpa = None
            if pair["route"] == "inline":
                qf = qlassf(caller_src, to_compile=False, bool_optimizer=optimizer(opt))
            else:
                g = qlassf(callee_src, to_compile=False)
                fpb = fingerprint(g)
                if pair["route"] == "defs":
                    qf = qlassf(caller_src, defs=[g], to_compile=False, bool_optimizer=optimizer(opt))
                else:
                    if opt == "fast":
                        continue
                    qf = oraclize(g, pair["element"])
                fpa = fingerprint(g)
                fns = {pair["callee"]["name"]: callee_def}
            c = {"def": caller_def, "fns": fns, "params": NONE,
                 "inputs": [b for a in qf.args for b in a.bitvec],
                 "rets": [s.name for s, _ in qf.expressions[-qf.output_size:]],
                 "exprs": ser.ser_exprs(qf.expressions), "opt": opt, "note": "route=" + pair["route"]}
            if fpb is not None:
                c["fpb"], c["fpa"] = fpb, fpa
            out["cases"].append(c)
        except _TO:
            out["status"] = "timeout"
            return out
        except ser.Unserialisable:
            out["status"] = "unserialisable"
            return out
        except Exception as e:
            out["status"] = "rejected"
            out["exc"] = f"{type(e).__name__}: {str(e)[:150]}"
            return out
        finally:
            signal.alarm(0)
    return out


def inline_job(j):
    """the call expression of a  return g(...)  caller, translated by the real translate_expression in an environment
    where the real callee was bound by the real bind_function (refinement binding of spec/Inline.tla)"""
    use_repo()
    import ast
    from qlasskit import qlassf
    from qlasskit.ast2logic import Env, translate_expression

    def flat(v):
        if isinstance(v, (list, tuple)):
            return [b for el in v for b in flat(el)]
        return [v]

    out = []
    for cid, pair in j["pairs"]:
        try:
            callee_src = render.source(pair["callee"])
            caller_src = render.source(pair["caller"])
            g = qlassf(callee_src, to_compile=False)
            caller = qlassf(caller_src, defs=[g], to_compile=False)
            call = ast.parse(caller_src).body[0].body[-1].value
            if not (isinstance(call, ast.Call) and getattr(call.func, "id", None) == g.name):
                continue
            if any(isinstance(a, ast.Call) for a in call.args):
                continue
            env = Env()
            for a in caller.args:
                env.bind(a)
            env.bind_function(g.to_logicfun())
            rec = {"id": cid, "src": callee_src + "\n" + caller_src, "name": g.name, "formals": [list(a.bitvec) for a in g.args],
                   "cexprs": ser.ser_exprs(g.expressions), "nret": len(g.returns.bitvec),
                   "inputs": [b for a in caller.args for b in a.bitvec], "exc": "", "result": [], "actuals": []}
            rec["actuals"] = [[ser.ser_expr(b) for b in flat(translate_expression(a, env)[1])] for a in call.args]
            try:
                rec["result"] = [ser.ser_expr(b) for b in flat(translate_expression(call, env)[1])]
            except Exception as e:
                rec["exc"] = f"{type(e).__name__}: {str(e)[:100]}"
            out.append(rec)
        except Exception:
            continue
    return out


def gen_pairs(sc):
    pairs, st = [], {"generated": 0, "distinct": 0}
    import os
    only = os.environ.get("VERIF_ONLY_ORIGIN")   # development aid: one family (evidence goes to out/)
    for fam in FAMILIES:
        if only and fam != only:
            continue
        cfg = f"SPECIFICATION Spec\nCONSTANT Family = \"{fam}\"\nINVARIANT Emit\nCHECK_DEADLOCK FALSE\n"
        r = tlc.run_model("PairGen", cfg, sc, workers=4, timeout=600, tags=("P",))
        pairs += [(fam, json.loads(v[1])) for v in r["prints"]["P"]]
        for k in st:
            st[k] += r["stats"].get(k, 0)
    return pairs, st


def run(pid):
    T0 = Timer()
    t = tier()
    rng = random.Random(seed())
    rep = Report("C07", "translation_validation")
    with Scratch("C07") as sc:
        pairs, gst = gen_pairs(sc)
        vlog("pairs", len(pairs))
        if t == "quick":
            byfam = {}
            for fam, p in pairs:
                byfam.setdefault(fam, []).append(p)
            pairs = []
            for fam, ps in sorted(byfam.items()):
                rng.shuffle(ps)
                pairs += [(fam, p) for p in ps[:90]]
        results = run_jobs(job, [{"family": fam, "pair": p} for fam, p in pairs])
        # refinement binding of the call mechanism (spec/Inline.tla); drift is evidence only
        ipairs = [(k, p) for k, (fam, p) in enumerate(pairs) if p["route"] == "defs"]
        irecs = [x for r in run_jobs(inline_job, [{"pairs": ipairs[k::32]} for k in range(32)]) for x in r]
        iverd, _ = tlc.run_cases("Trace_Inline", irecs, sc, timeout=1800, heap="4g") if irecs else ({}, {})
        inline = {"spec": "Inline.tla via Trace_Inline", "calls_replayed": len(irecs), "verdicts": {}, "drift_samples": []}
        for x in irecs:
            v = iverd[x["id"]]
            inline["verdicts"][v] = inline["verdicts"].get(v, 0) + 1
            if v.startswith("drift") and len(inline["drift_samples"]) < 5:
                inline["drift_samples"].append({"src": x["src"], "verdict": v})
        vlog("inline", inline["verdicts"])
        rej = {}
        for r in results:
            if r["status"] == "rejected":
                k = r["exc"].split(":")[0]
                rej[k] = rej.get(k, 0) + 1
        cov, vst = judge("C07", rep, results, sc, extra_cov={"pairs": len(pairs), "generator_states": gst, "rejections": rej,
                                                             "families": FAMILIES, "refinement": inline})
    vac = None if vst.get("ok", 0) >= 100 else f"only {vst.get('ok', 0)} ok"
    return rep.finish(cov, T0.s(), assumptions=["spec/PySem.tla applies the callee's definition to argument values"], vacuity=vac)

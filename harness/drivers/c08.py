"""C08: binding parameters is specialisation; bind histories from spec/ParamGen.tla."""
import ast
import json
import random
import signal

from .. import tlc, ser, pyast, render
from ..artefact import run_jobs, optimizer
from ..common import Scratch, Timer, tier, seed, use_repo, vlog
from ..report import Report
from .c01 import NONE, _TO, _alarm, judge

PROGS = list(range(1, 13))


def pyconst(node):
    if node["T"] == "Constant":
        return node["value"]["v"]
    return [pyconst(e) for e in node["elts"]]


def _edit_in_place(obj, new):
    """make the list object `obj` equal to `new` without replacing it (inner lists are edited in place too)"""
    for k, v in enumerate(new):
        if isinstance(v, list) and isinstance(obj[k], list) and len(obj[k]) == len(v):
            _edit_in_place(obj[k], v)
        else:
            obj[k] = v


def job(j):
    use_repo()
    from qlasskit import qlassf

    h = j["hist"]
    out = {"src": "", "origin": f"ParamGen-{j['prog']}", "cases": [], "status": "ok"}
    src = render.source(h["def"])
    out["src"] = src + "\n# history=" + json.dumps([[[k, pyconst(v)] for k, v in val] for val in h["hist"]]) + " mode=" + str(h.get("mode"))
    d = pyast.program(src)
    signal.signal(signal.SIGALRM, _alarm)
    signal.alarm(60)
    try:
        for opt in ("default", "fast"):
            u = qlassf(src, to_compile=False, bool_optimizer=optimizer(opt))
            dump0 = ast.dump(u.fun_ast)
            params0 = sorted(u.parameters.keys())
            first = {}
            held = {}   # mode "inplace": the one value object per parameter that every bind of the history receives
            for step, val in enumerate(h["hist"]):
                kv = {k: pyconst(v) for k, v in val}
                if h.get("mode") == "inplace":
                    for k, w in list(kv.items()):
                        if isinstance(w, list):
                            if k in held and len(held[k]) == len(w):
                                _edit_in_place(held[k], w)
                            else:
                                held[k] = w
                            kv[k] = held[k]
                qf = u.bind(**kv)
                key = json.dumps(list(kv.items()), default=str)  # same values in the same keyword order
                c = {"def": d, "fns": NONE, "params": {k: v for k, v in val},
                     "inputs": [b for a in qf.args for b in a.bitvec],
                     "rets": [s.name for s, _ in qf.expressions[-qf.output_size:]],
                     "exprs": ser.ser_exprs(qf.expressions), "opt": opt, "note": f"step={step} mode={h.get('mode')} bind={kv}",
                     "fpb": {"dump": dump0, "params": params0},
                     "fpa": {"dump": ast.dump(u.fun_ast), "params": sorted(u.parameters.keys())}}
                if key in first:
                    c["again"] = first[key]
                else:
                    first[key] = c["exprs"]
                if step == len(h["hist"]) - 1 or j.get("all_steps"):
                    out["cases"].append(c)
    except _TO:
        out["status"] = "timeout"
    except ser.Unserialisable:
        out["status"] = "unserialisable"
    except Exception as e:
        out["status"] = "rejected"
        out["exc"] = f"{type(e).__name__}: {str(e)[:150]}"
    finally:
        signal.alarm(0)
    return out


def run(pid):
    T0 = Timer()
    t = tier()
    rng = random.Random(seed())
    rep = Report("C08", "translation_validation")
    hists, gst = [], {"generated": 0, "distinct": 0}
    with Scratch("C08") as sc:
        for pr in PROGS:
            cfg = f"SPECIFICATION Spec\nCONSTANTS ProgId = {pr}\n MaxLen = {3 if t == 'quick' else 4}\nINVARIANT Emit\nCHECK_DEADLOCK FALSE\n"
            r = tlc.run_model("ParamGen", cfg, sc, workers=4, timeout=900, tags=("H",))
            hs = [json.loads(v[1]) for v in r["prints"]["H"]]
            for k in gst:
                gst[k] += r["stats"].get(k, 0)
            if t == "quick":
                one = [h for h in hs if len(h["hist"]) == 1]
                more = [h for h in hs if len(h["hist"]) > 1]
                rng.shuffle(more)
                hs = one + [h for h in more if h.get("mode") != "inplace"][:30] + [h for h in more if h.get("mode") == "inplace"][:20]
            hists += [(pr, h) for h in hs]
        vlog("histories", len(hists))
        results = run_jobs(job, [{"prog": pr, "hist": h} for pr, h in hists])
        rej = {}
        for r in results:
            if r["status"] == "rejected":
                rej[r["exc"][:80]] = rej.get(r["exc"][:80], 0) + 1
        cov, vst = judge("C08", rep, results, sc, extra_cov={"histories": len(hists), "generator_states": gst, "rejections": rej})
    vac = None if vst.get("ok", 0) >= 100 else f"only {vst.get('ok', 0)} ok"
    return rep.finish(cov, T0.s(), assumptions=["spec/PySem.tla binds parameters as literals at the top of the body"], vacuity=vac)

"""C10: compilation is pure over histories.  Histories from spec/Session.tla are replayed, each in a fresh
interpreter (a process forked from a parent that has imported the library and done nothing else); every
term is also evaluated alone in its own fresh interpreter; spec/Trace_C10.tla judges the recording."""
import ast
import hashlib
import json
import multiprocessing as mp
import random

from .. import tlc, ser
from ..artefact import arg_desc
from ..common import Scratch, Timer, tier, seed, use_repo, vlog
from ..report import Report

SRC = {
    1: "def f(a: Qint[2]) -> bool:\n    return a == 2",
    2: "def f(a: Qint[2]) -> bool:\n    return a != 1",
    3: "def g(x: Qint[2]) -> Qint[2]:\n    return x + 1",
    4: "def caller(a: Qint[2]) -> Qint[2]:\n    return g(a) + g(a)",
    5: "def flatten(a: bool, b: bool) -> bool:\n    return a and not b",
    6: "def reduce(a: bool, b: bool) -> bool:\n    return a != b",
    7: "def p(c: Parameter[Qint[2]], a: Qint[2]) -> Qint[2]:\n    return a + c",
    8: "def s(x: Qint[2]) -> Qint[2]:\n    return x >> 1",
    9: "def oracle(x: Qint[2]) -> Qint[2]:\n    return x ^ 1",
    10: "def bvf(x: Qint[2]) -> bool:\n    return x[0] ^ x[1]",
    11: "def ast2ast(a: bool, b: bool) -> bool:\n    return a or b",
    12: "def fx(a: Qfixed[1,2]) -> bool:\n    return a == 1.0",
    13: "def fc(a: Qchar) -> bool:\n    return a == '1'",
    14: "def ps(w: Parameter[Qlist[Qint[2], 2]], a: Qint[2]) -> Qint[2]:\n    return a + sum(w) if any([x == 3 for x in w]) else a",
    # a function NAMED like a name the library's sources use (Tuple), and a later source that needs that name
    15: "def Tuple(a: bool, b: bool) -> bool:\n    return a != b",
    16: "def tp(t: Tuple[bool, bool]) -> bool:\n    return t[0] and not t[1]",
    # constant locals: with fastOptimizer the circuits use the shared constant qubits
    17: "def cl(a: bool, b: bool) -> bool:\n    c = True\n    if a:\n        c = b\n    return c",
    18: "def cm(x: bool, y: bool, z: bool) -> bool:\n    t = True\n    u = False\n    if z:\n        u = x and y\n    return u ^ t",
}


def digest(x):
    return hashlib.sha256(json.dumps(x, sort_keys=True, default=str).encode()).hexdigest()[:16]


def fp(o):
    """observable state of an object / artefact"""
    tn = type(o).__name__
    if tn == "QlassF":
        d = {"kind": "QlassF", "name": o.name, "args": [arg_desc(a) for a in o.args], "ret": arg_desc(o.returns),
             "exprs": ser.ser_exprs(o.expressions)}
        if hasattr(o, "_qcircuit"):
            qc = o._qcircuit
            d.update({"gates": [(g["k"], g["w"]) for g in ser.ser_gates(qc.gates)], "nq": qc.num_qubits, "qmap": ser.ser_qmap(qc)})
            for attr in ("input_qubits", "output_qubits"):
                try:
                    d[attr] = list(getattr(o, attr))
                except Exception as e:
                    d[attr] = "raises " + type(e).__name__
        return d
    if tn == "UnboundQlassf":
        return {"kind": "Unbound", "dump": ast.dump(o.fun_ast), "params": sorted(o.parameters.keys())}
    if hasattr(o, "_qcircuit"):  # algorithm wrapper
        qc = o._qcircuit
        return {"kind": tn, "gates": [(g["k"], g["w"], g["m"]) for g in ser.ser_gates(qc.gates)], "nq": qc.num_qubits,
                "outq": list(o.output_qubits)}
    return {"kind": "artefact", "v": o}


def apply(op, args):
    from qlasskit import qlassf
    from qlasskit.algorithms import Grover, DeutschJozsa, BernsteinVazirani, Simon, oraclize
    from qlasskit.boolopt import defaultOptimizer, fastOptimizer
    from qlasskit.decompiler import Decompiler
    import qlasskit.types as QT

    if op == "compile":
        return qlassf(SRC[args[0]], bool_optimizer={"default": defaultOptimizer, "fast": fastOptimizer}[args[1]])
    if op == "compile_defs":
        return qlassf(SRC[args[0]], defs=[args[1]])
    if op == "bind":
        if "w" in args[0].parameters:  # the list parameter of program 14 (consumed by builtins the ast rewriter folds)
            return args[0].bind(w=[args[1], 1])
        return args[0].bind(c=args[1])
    if op == "oraclize":
        return oraclize(args[0], args[1])
    if op == "grover":
        return Grover(args[0])
    if op == "grover_el":
        return Grover(args[0], QT.Qint2(args[1]))
    if op == "dj":
        return DeutschJozsa(args[0])
    if op == "bv":
        return BernsteinVazirani(args[0])
    if op == "simon":
        return Simon(args[0])
    if op == "export":
        r = args[0].export(args[1])
        if args[1] == "qiskit":
            return [(i.operation.name, [r.find_bit(b).index for b in i.qubits]) for i in r.data]
        return str(r)
    if op == "decompile":
        res = Decompiler().decompile(args[0].circuit())
        return [(list(s.index), [(g["k"], g["w"]) for g in ser.ser_gates(s.gates)], ser.ser_exprs(s.expressions)) for s in res]
    if op == "truth_table":
        return [[int(bool(x)) for x in row] for row in args[0].truth_table()]
    raise ValueError(op)


def is_term(x):
    return isinstance(x, dict) and "op" in x


def eval_alone(term):
    args = [eval_alone(a) if is_term(a) else a for a in term["args"]]
    return apply(term["op"], args)


def alone_job(term_json):
    use_repo()
    term = json.loads(term_json)
    try:
        r = eval_alone(term)
        return term_json, digest(fp(r)), ""
    except Exception as e:
        return term_json, "", type(e).__name__


def hist_job(hist_json):
    use_repo()
    hist = json.loads(hist_json)
    live = []  # (term_json, object)
    steps = []
    for term in hist:
        before = [digest(fp(o)) for _, o in live]
        args = []
        for a in term["args"]:
            if is_term(a):
                aj = json.dumps(a, sort_keys=True)
                obj = next((o for tj, o in live if tj == aj), None)
                if obj is None:  # the argument object was not kept (pool full): re-evaluate its term in this session
                    try:
                        obj = eval_alone(a)
                    except Exception:
                        obj = None
                args.append(obj)
            else:
                args.append(a)
        st = {"op": term["op"], "term": json.dumps(term, sort_keys=True), "res": "", "exc": ""}
        try:
            r = apply(term["op"], args)
            st["res"] = digest(fp(r))
            full = fp(r)
        except Exception as e:
            r = None
            st["exc"] = type(e).__name__
            st["exc_text"] = str(e)[:200]
        st["before"] = before
        st["after"] = [digest(fp(o)) for _, o in live]
        steps.append(st)
        if r is not None and type(r).__name__ in ("QlassF", "UnboundQlassf") and len(live) < 3:
            live.append((json.dumps(term, sort_keys=True), r))
    return hist_json, steps


def fresh_map(fn, items, procs=16):
    """one freshly forked interpreter per item"""
    ctx = mp.get_context("fork")
    with ctx.Pool(processes=procs, maxtasksperchild=1) as pool:
        return pool.map(fn, items, chunksize=1)


def run(pid):
    T0 = Timer()
    t = tier()
    rng = random.Random(seed())
    quick = t == "quick"
    rep = Report("C10", "model_checking")
    use_repo()  # the parent imports the library and does nothing else: children are fresh interpreters
    with Scratch("C10") as sc:
        cfg = "SPECIFICATION Spec\nCONSTANTS MaxLen = %d\n MaxLive = 3\n Progs = {%s}\nINVARIANT Emit\nCHECK_DEADLOCK FALSE\n"
        r = tlc.run_model("Session", cfg % (2, "1,2,3,4,5,6,7,8,9,10,11,12,13,14,15,16,17,18"), sc, workers=8, timeout=900, tags=("S",), heap="6g")
        hists = [json.loads(v[1]) for v in r["prints"]["S"]]
        gst = dict(r["stats"])
        r3 = tlc.run_model("Session", cfg % (3, "1,2,3,4,7,9,11,12,14,15,16,17,18" if quick else "1,2,3,4,5,6,7,8,9,10,11,12,13,14,15,16,17,18"), sc, workers=8, timeout=1800, tags=("S",), heap="8g")
        h3 = [h for h in (json.loads(v[1]) for v in r3["prints"]["S"]) if len(h) == 3]
        for k in ("generated", "distinct"):
            gst[k] = gst.get(k, 0) + r3["stats"].get(k, 0)
        vlog("histories", len(hists), len(h3))
        if quick:
            rng.shuffle(h3)
            strata = {}
            for h in h3:
                strata.setdefault(tuple(x["op"] for x in h), []).append(h)
            h3 = [h for k in sorted(strata) for h in strata[k][:3]]
        else:
            rng.shuffle(h3)
            h3 = h3[:12000]
        # only maximal histories need replaying (prefixes are judged on the way)
        hs = [h for h in hists if len(h) == 2] + h3
        hs_json = sorted({json.dumps(h, sort_keys=True) for h in hs})
        results = fresh_map(hist_job, hs_json)
        terms = sorted({st["term"] for _, steps in results for st in steps})
        vlog("replayed", len(results), "distinct terms", len(terms))
        alone = {tj: (d, e) for tj, d, e in fresh_map(alone_job, terms)}
        cases = []
        for hj, steps in results:
            for st in steps:
                st["alone"], st["alone_exc"] = alone[st["term"]]
                st["alone_exc"] = "" if st["alone_exc"] == "" else st["alone_exc"]
            cases.append({"id": len(cases), "hist": hj,
                          "steps": [{k: st[k] for k in ("op", "res", "exc", "alone", "alone_exc", "before", "after")} for st in steps]})
        # exception CLASS must agree too when both raise? the property: "breaks later calls" -> raise iff raises alone
        verdicts, stats = tlc.run_cases("Trace_C10", cases, sc, timeout=1800)
    vst, ops, clauses = {}, {}, {}
    raw = dict(results)
    for c in cases:
        v = verdicts[c["id"]]
        vst[v[0]] = vst.get(v[0], 0) + 1
        for s in c["steps"]:
            ops[s["op"]] = ops.get(s["op"], 0) + 1
        if v[0] == "fail":
            clauses[v[1]] = clauses.get(v[1], 0) + 1
            h = json.loads(c["hist"])
            bad = raw[c["hist"]][v[2]]
            rep.fail({"history": h, "step": v[2], "exc": bad.get("exc_text", "")}, v[1],
                     f"step={v[2]} op={bad['op']} obj={v[3]} exc={bad['exc']} {bad.get('exc_text', '')[:80]} history={summar(h)}",
                     key=summar(h), triggers=trig(h, v))
    cov = {"states": stats["distinct"] + gst.get("distinct", 0), "transitions": stats["generated"] + gst.get("generated", 0),
           "traces_validated_against_impl": len(cases),
           "samples": [{"history": summar(json.loads(c["hist"])), "verdict": verdicts[c["id"]]} for c in cases[:: max(1, len(cases) // 4)][:4]],
           "evaluations": sum(len(c["steps"]) for c in cases), "distinct_nontrivial": len(cases),
           "rule": "one case = one API history replayed in a fresh interpreter; every step's result fingerprint is compared with the same term evaluated alone in another fresh interpreter, and every live object's fingerprint before/after each step",
           "generator_states": gst, "terms_evaluated_alone": len(terms), "ops": ops, "verdicts": vst, "failing_clauses": clauses}
    vac = None if vst.get("ok", 0) >= 150 else f"ok={vst.get('ok', 0)}"
    return rep.finish(cov, T0.s(), assumptions=["a process forked from a parent that only imported the library is a fresh interpreter",
                                                 "fingerprints are digests of the serialised observable state"], vacuity=vac)


def summar(h):
    def t(x):
        if is_term(x):
            return f"{x['op']}({','.join(t(a) for a in x['args'])})"
        return str(x)
    return " ; ".join(t(x) for x in h)


def trig(h, v):
    """call-site patterns of the failing history"""
    out = []
    names = {5: "flatten", 6: "reduce", 11: "ast2ast", 9: "oracle"}
    def walk(x):
        if is_term(x):
            if x["op"] == "compile" and x["args"][0] in names:
                out.append("compiled-source-named-" + names[x["args"][0]])
            out.append("op-" + x["op"])
            for a in x["args"]:
                walk(a)
    for x in h:
        walk(x)
    return tuple(sorted(set(out)))

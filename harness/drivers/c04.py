"""C04: optimizer profiles and each single step preserve meaning (spec/Trace_C04.tla).

Inputs: (i) all expression trees enumerated by TLC from spec/ExprGen.tla (BFS to a token bound,
plus -simulate for deeper ones), rebuilt with sympy's own constructors, alone and in lists with shared
intermediates; (ii) the pre-optimizer lists the front end produces for the program corpus, and the
(in, out) pairs of the cnf simplification inside translate_ast.  Every step is applied by the real
library; TLC judges each recorded (pre, post) pair on all assignments."""
import json
import os
import random
import signal

from .. import tlc, ser, progs
from ..artefact import run_jobs
from ..common import is_ret,  Scratch, Timer, tier, seed, use_repo, MachineryError, vlog
from ..report import Report

STEP_NAMES = {
    "default": ["merge_expressions", "apply_cse", "remove_ITE", "remove_Implies", "transform_or2xor",
                "transform_or2and", "remove_obvious_expr"],
    "fast": ["remove_ITE", "remove_Implies", "transform_or2xor", "transform_or2and", "remove_obvious_expr"],
}


class _TO(Exception):
    pass


def _alarm(*a):
    raise _TO()


def gen_trees(sc, maxtok, nsim, simdepth):
    cfg = ("SPECIFICATION Spec\nCONSTANTS MaxTok = %d\n Syms = {\"a\",\"b\",\"c\"}\n WithConst = %s\n"
           "INVARIANT Emit\nCONSTRAINT Bound\nCHECK_DEADLOCK FALSE\n")
    r = tlc.run_model("ExprGen", cfg % (maxtok, "FALSE"), sc, workers=8, timeout=600, tags=("E",))
    trees = [json.loads(v[1]) for v in r["prints"]["E"]]
    stats = dict(r["stats"])
    # constants included, smaller bound
    r2 = tlc.run_model("ExprGen", cfg % (max(3, maxtok - 2), "TRUE"), sc, workers=8, timeout=600, tags=("E",))
    trees += [json.loads(v[1]) for v in r2["prints"]["E"]]
    if nsim:
        r3 = tlc.run_model("ExprGen", cfg % (simdepth, "FALSE"), sc, workers=1, timeout=600, tags=("E",),
                           extra=("-simulate", f"num={nsim}", "-depth", str(simdepth), "-seed", str(seed())))
        trees += [json.loads(v[1]) for v in r3["prints"]["E"]]
    seen, out = set(), []
    for t in trees:
        k = json.dumps(t, sort_keys=True)
        if k not in seen:
            seen.add(k)
            out.append(t)
    return out, stats


PAT_FAMILIES = ["or22", "or33", "or23", "nary", "lit2", "ite", "nest"]


def gen_patterns(sc):
    out, st = [], {"generated": 0, "distinct": 0}
    for fam in PAT_FAMILIES:
        cfg = f"SPECIFICATION Spec\nCONSTANT Family = \"{fam}\"\nINVARIANT Emit\nCHECK_DEADLOCK FALSE\n"
        r = tlc.run_model("PatGen", cfg, sc, workers=4, timeout=600, tags=("E",))
        ts = [json.loads(v[1]) for v in r["prints"]["E"]]
        out += [(fam, t) for t in ts]
        st["generated"] += r["stats"].get("generated", 0)
        st["distinct"] += r["stats"].get("distinct", 0)
    return out, st


def build(j):
    """JSON tree -> sympy expression, with sympy's constructors"""
    from sympy import Symbol
    from sympy.logic.boolalg import ITE, And, Implies, Not, Or, Xor, true, false

    op = j["op"]
    if op == "sym":
        return Symbol(j["n"])
    if op == "true":
        return true
    if op == "false":
        return false
    cls = {"and": And, "or": Or, "xor": Xor, "not": Not, "ite": ITE, "implies": Implies}[op]
    return cls(*[build(a) for a in j["args"]])


def apply_job(job):
    """job: {"lists": [{"key", "inputs", "exprs": [[name, tree]...]}]} ->
    recorded (pre, post) pairs for each step alone, each step in sequence, each whole profile"""
    use_repo()
    from sympy import Symbol
    from qlasskit.boolopt import BoolOptimizerProfile, defaultOptimizer, fastOptimizer

    profs = {"default": defaultOptimizer, "fast": fastOptimizer}
    signal.signal(signal.SIGALRM, _alarm)
    out = []
    for L in job["lists"]:
        if sum(ser.expr_size(t) for _, t in L["exprs"]) > int(job.get("maxnodes", 3000)):
            out.append({"key": L["key"], "origin": L["origin"], "status": "too-big", "step": "-", "mode": "-"})
            continue
        signal.alarm(10)
        try:
            pre = [(Symbol(n), build(t)) for n, t in L["exprs"]]
            pre_j = ser.ser_exprs(pre)
        except BaseException as e:
            out.append({"key": L["key"], "origin": L["origin"], "status": "timeout", "step": "-", "mode": "-"})
            continue
        finally:
            signal.alarm(0)
        rets = [n for n, _ in pre_j if is_ret(n)]
        seen_alone = set()

        def record(step, mode, a, fn):
            rec = {"key": L["key"], "origin": L["origin"], "inputs": L["inputs"], "rets": rets, "step": step,
                   "mode": mode, "pre": ser.ser_exprs(a)}
            left = deadline - _time.time()
            if left < 1:
                gaveup.append("list-budget")
                rec["status"] = "timeout"
                out.append(rec)
                return None
            signal.alarm(max(1, int(min(left, job.get("alarm", 8)))))
            try:
                b = fn(a)
                rec["post"] = ser.ser_exprs(b)
                rec["status"] = "ok"
                if rec["post"] == rec["pre"]:  # step returned the list unchanged: nothing to judge, do not ship it
                    rec["status"] = "unchanged"
                    del rec["pre"], rec["post"]
            except _TO:
                rec["status"] = "timeout"
                gaveup.append(step)  # sympy blow-up on this list: skip its remaining applications
                b = None
            except ser.Unserialisable as e:
                rec["status"] = "unserialisable"
                b = None
            except Exception as e:
                rec["status"] = "raised"
                rec["exc"] = f"{type(e).__name__}: {str(e)[:160]}"
                b = None
            finally:
                signal.alarm(0)
            out.append(rec)
            return b

        gaveup = []
        import time as _time
        deadline = _time.time() + float(job.get("budget", 12))

        for pname, prof in profs.items():
            cur = pre
            for k, st in enumerate(prof.steps):
                if gaveup:
                    break
                sname = STEP_NAMES[pname][k] if len(prof.steps) == len(STEP_NAMES[pname]) else f"step{k}"
                one = BoolOptimizerProfile([st])
                if sname not in seen_alone:  # the step alone on the original list
                    seen_alone.add(sname)
                    record(sname, "alone", pre, one.apply)
                if cur is not None:
                    cur = record(sname, f"in-{pname}", cur, one.apply)
            if not gaveup:
                record(pname, "profile", pre, prof.apply)
    return out


def frontend_job(job):
    """pre-optimizer list of a corpus program + the (in, out) pairs of the cnf simplification"""
    use_repo()
    import qlasskit.ast2logic.t_ast as t_ast
    from qlasskit import qlassf
    from qlasskit.boolopt import BoolOptimizerProfile

    pairs = []
    orig = t_ast.simplify_logic

    def rec(e, form=None, **kw):
        r = orig(e, form=form, **kw)
        pairs.append((e, r))
        return r

    signal.signal(signal.SIGALRM, _alarm)
    signal.alarm(40)
    t_ast.simplify_logic = rec
    try:
        qf = qlassf(job["src"], to_compile=False, bool_optimizer=BoolOptimizerProfile([]))
        if type(qf).__name__ == "UnboundQlassf":
            return None
        inputs = [b for a in qf.args for b in a.bitvec]
        res = {"src": job["src"], "inputs": inputs, "exprs": ser.ser_exprs(qf.expressions), "cnf": []}
        for e, r in pairs:
            try:
                if isinstance(e, tuple):  # translate_ast hands (symbol, expr) pairs to simplify_logic
                    e, r = e[1], r[1]
                fs = sorted(s.name for s in getattr(e, "free_symbols", []))
                if 0 < len(fs) <= 10:
                    res["cnf"].append({"inputs": fs, "pre": [["_ret", ser.ser_expr(e)]], "post": [["_ret", ser.ser_expr(r)]]})
            except ser.Unserialisable:
                pass
        return res
    except Exception:
        return None
    finally:
        signal.alarm(0)
        t_ast.simplify_logic = orig


MODELLED = set(STEP_NAMES["default"])


def model_check_rules(sc, quick):
    """TLC on the transcribed rules themselves: every ExprGen tree to a token bound and every PatGen family,
    every step, every outcome the rule's relation allows (all argument orders)"""
    out = {"universes": {}, "broken": [], "fired": {}, "nondeterministic_trees": 0}
    runs = [("MC_BoolOpt", f"ExprGen<= {n}{'+const' if wc == 'TRUE' else ''}",
             ("SPECIFICATION Spec\nCONSTANTS MaxTok = %d\n Syms = {\"a\",\"b\",\"c\"}\n WithConst = %s\nINVARIANT RulesOK\n"
              "CONSTRAINT Bound\nCHECK_DEADLOCK FALSE\n") % (n, wc)) for n, wc in ((5 if quick else 6, "FALSE"), (4 if quick else 5, "TRUE"))]
    runs += [("MC_BoolOptPat", "PatGen-" + fam, f"SPECIFICATION Spec\nCONSTANT Family = \"{fam}\"\nINVARIANT RulesOK\nCHECK_DEADLOCK FALSE\n")
             for fam in PAT_FAMILIES]
    for mod, name, cfg in runs:
        r = tlc.run_model(mod, cfg, sc, workers=16, timeout=3000, tags=("B", "N", "F"), heap="8g")
        if not r["ok"]:
            raise MachineryError(f"{mod} {name}: model checking did not complete")
        out["universes"][name] = r["stats"].get("distinct", 0)
        out["broken"] += [{"clause": v[1], "step": v[2], "tree": v[3]} for v in r["prints"]["B"]]
        out["nondeterministic_trees"] += len(r["prints"]["N"])
        for v in r["prints"]["F"]:
            out["fired"][v[1]] = out["fired"].get(v[1], 0) + 1
    return out


def triggers_of(r):
    """call-site patterns of a recorded application (used to identify known findings)"""
    tr = [r["step"]]
    if r["step"] == "apply_cse" and any(not is_ret(n) for n, _ in r["pre"]):
        tr.append("apply_cse-on-list-with-intermediate-definitions")
    return tuple(tr)


def subst(t, a, b):
    if t["op"] == "sym":
        return {"op": "sym", "n": b} if t["n"] == a else t
    if "args" not in t:
        return t
    return {"op": t["op"], "args": [subst(x, a, b) for x in t["args"]]}


def run(pid):
    T0 = Timer()
    t = tier()
    rng = random.Random(seed())
    rep = Report("C04", "model_checking")
    quick = t == "quick"
    with Scratch("C04") as sc:
        trees, gstats = gen_trees(sc, 5 if quick else 6, 300 if quick else 3000, 9)
        pats, pstats = gen_patterns(sc)
        gstats = {k: gstats.get(k, 0) + pstats.get(k, 0) for k in ("generated", "distinct")}
        if quick:  # all trees of <= 4 tokens... the 5-token layer and the pattern families are sampled by seed
            small = [x for x in trees if ser.expr_size(x) <= 4]
            rest = [x for x in trees if ser.expr_size(x) > 4]
            rng.shuffle(rest)
            trees_used = small + rest[:500]
            rng.shuffle(pats)
            byfam = {}
            for fam, x in pats:
                byfam.setdefault(fam, []).append(x)
            pats_used = [(fam, x) for fam, xs in sorted(byfam.items()) for x in xs[:160]]
        else:
            trees_used, pats_used = trees, pats
        vlog('generated', len(trees), len(pats))
        lists = []
        for k, tr in enumerate(trees_used):
            lists.append({"key": "tree:" + json.dumps(tr, sort_keys=True), "origin": "ExprGen", "inputs": ["a", "b", "c"], "exprs": [["_ret", tr]]})
        for fam, tr in pats_used:
            ins = ["a", "b", "c", "d"] if fam == "nary" else ["a", "b", "c"]
            lists.append({"key": "pat:" + json.dumps(tr, sort_keys=True), "origin": "PatGen-" + fam, "inputs": ins, "exprs": [["_ret", tr]]})
        # lists with a shared intermediate t (and a re-bound one), two return bits
        npairs = 150 if quick else 4000
        for k in range(npairs):
            e1, e2, e3 = rng.choice(trees), rng.choice(trees), rng.choice(trees)
            shape = k % 3
            if shape == 0:
                ex = [["t", e1], ["_ret.0", subst(e2, "c", "t")], ["_ret.1", subst(e3, "b", "t")]]
            elif shape == 1:  # temporary + rename, as the front end does for  t = f(t)
                ex = [["t", e1], ["__t", subst(e2, "c", "t")], ["t", {"op": "sym", "n": "__t"}], ["_ret", subst(e3, "a", "t")]]
            else:  # alias of an input, then the input re-bound
                ex = [["t", {"op": "sym", "n": "a"}], ["a", e1], ["_ret.0", subst(e2, "c", "t")], ["_ret.1", e3]]
            lists.append({"key": "list:" + json.dumps(ex, sort_keys=True), "origin": "ExprGen-list", "inputs": ["a", "b", "c"], "exprs": ex})
        # front-end lists
        srcs = progs.corpus("C04", t, seed())
        if quick:
            rng.shuffle(srcs)
            srcs = srcs[:70]
        fe = [r for r in run_jobs(frontend_job, [{"src": s["src"]} for s in srcs]) if r]
        vlog('front-end done', len(fe))
        cnf_cases = []
        for r in fe:
            if len(r["inputs"]) <= 10:
                lists.append({"key": "fe:" + r["src"], "origin": "front-end", "inputs": r["inputs"], "exprs": r["exprs"]})
            for c in r["cnf"]:
                cnf_cases.append(dict(c, key="cnf:" + r["src"], origin="front-end-cnf", step="simplify_logic(cnf)",
                                      mode="translate_ast", rets=["_ret"], status="ok"))
        rng.shuffle(lists)
        if os.environ.get("VERIF_DUMP"):
            json.dump(lists, open(os.environ["VERIF_DUMP"], "w"))
        chunks = [{"lists": lists[k::128], "budget": 12 if quick else 60, "alarm": 8 if quick else 30} for k in range(128)]
        recs = [x for r in run_jobs(apply_job, chunks) for x in r] + cnf_cases
        vlog('applied', len(recs))
        cases, meta = [], {}
        st, unchanged = {}, {}
        for r in recs:
            st[r["status"]] = st.get(r["status"], 0) + 1
            if r["status"] == "raised":
                rep.fail({k: r[k] for k in ("key", "step", "mode", "pre", "exc")}, "step-raised",
                         f"step={r['step']} {r['exc']} list={r['key'][:120]}", key=f"{r['step']}:{r['key']}",
                         triggers=(r["step"],))
                continue
            if r["status"] == "unchanged" or (r["status"] == "ok" and r["pre"] == r["post"]):
                unchanged[r["step"]] = unchanged.get(r["step"], 0) + 1
                continue
            if r["status"] != "ok":
                continue
            c = {"id": len(cases), "inputs": r["inputs"], "rets": r["rets"], "pre": r["pre"], "post": r["post"]}
            cases.append(c)
            meta[c["id"]] = r
        verdicts, stats = tlc.run_cases("Trace_C04", cases, sc, timeout=1500)
        # refinement binding: is each recorded application a behaviour of spec/BoolOpt.tla?  (drift is reported, never judged)
        rcases = [dict(c, step=meta[c["id"]]["step"]) for c in cases
                  if meta[c["id"]]["step"] in MODELLED and sum(ser.expr_size(t) for _, t in c["pre"]) <= 400]
        rverd, rstats = tlc.run_cases("Trace_BoolOpt", rcases, sc, timeout=1500, heap="4g")
        mc = model_check_rules(sc, quick)
    vlog('tlc done', len(cases))
    vst, changed, per_step = {}, 0, {}
    rv, rstep, drift = {}, {}, []
    for c in rcases:
        v = rverd[c["id"]]
        rv[v] = rv.get(v, 0) + 1
        d = rstep.setdefault(c["step"], {})
        d[v] = d.get(v, 0) + 1
        if v != "conform":
            drift.append({"step": c["step"], "verdict": v, "pre": c["pre"], "post": c["post"]})
    for c in cases:
        v = verdicts[c["id"]]
        r = meta[c["id"]]
        vst[v[0]] = vst.get(v[0], 0) + 1
        ps = per_step.setdefault(r["step"], {"applied": 0, "changed": 0, "fail": 0})
        ps["applied"] += 1
        if c["pre"] != c["post"]:
            ps["changed"] += 1
            changed += 1
        if v[0] == "fail":
            ps["fail"] += 1
            rep.fail({"key": r["key"], "step": r["step"], "mode": r["mode"], "inputs": r["inputs"], "pre": r["pre"], "post": r["post"]},
                     v[1], f"step={r['step']} mode={r['mode']} sym={v[2]} row={v[3]} list={r['key'][:160]}",
                     key=f"{r['step']}:{r['key']}", triggers=triggers_of(r))
    cov = {
        "states": stats["distinct"] + gstats.get("distinct", 0), "transitions": stats["generated"] + gstats.get("generated", 0),
        "traces_validated_against_impl": len(cases),
        "samples": [{"step": meta[c["id"]]["step"], "mode": meta[c["id"]]["mode"], "pre": c["pre"], "post": c["post"],
                     "verdict": verdicts[c["id"]]} for c in cases[:: max(1, len(cases) // 3)][:3]],
        "evaluations": len(cases), "distinct_nontrivial": changed,
        "rule": "one case = one real application of a step/profile to a list; non-trivial = the step changed the list; all 2^n assignments judged by TLC",
        "generator_states": gstats, "trees": len(trees), "lists": len(lists), "frontend_lists": len(fe),
        "cnf_pairs": len(cnf_cases), "status": st, "verdicts": vst, "per_step": per_step, "unchanged_not_judged": unchanged,
        "pattern_trees": len(pats), "trees_used": len(trees_used), "patterns_used": len(pats_used),
        "refinement": {"spec": "BoolOpt.tla via Trace_BoolOpt", "applications_replayed": len(rcases), "verdicts": rv, "per_step": rstep,
                       "drift_samples": drift[:5]},
        "model_checking_of_BoolOpt": mc,
    }
    vac = None
    if mc["broken"]:
        vlog("BoolOpt model: broken clauses", mc["broken"][:3])
    if len(cases) < 300 or any(per_step.get(s, {}).get("changed", 0) == 0 for s in STEP_NAMES["default"]):
        vac = f"cases={len(cases)} per_step={per_step}"
    return rep.finish(cov, T0.s(), assumptions=["spec/BoolSem.tla is the reference semantics of boolean trees"], vacuity=vac)

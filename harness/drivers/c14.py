"""C14: circuit composition operators.  Histories from spec/OpsGen.tla are replayed on real QCircuit
objects; every object's gate list is recorded around every step; spec/Trace_Gates.tla judges."""
import json
import random

from .. import tlc, ser, gates as GT
from ..artefact import run_jobs
from ..common import Scratch, Timer, tier, seed, use_repo, vlog
from ..report import Report


def aux(o):
    """the rest of an object's observable state: names, and the ancilla bookkeeping of a QCircuitEnhanced"""
    d = [[str(k), int(v)] for k, v in o.qubit_map.items()]
    for f in ("ancilla_lst", "free_ancilla_lst", "marked_ancillas"):
        if hasattr(o, f):
            d.append([f, sorted(int(x) for x in getattr(o, f))])
    return json.dumps(d)


def snap(objs, ids):
    return [{"nq": int(o.num_qubits), "gates": ser.ser_gates(o.gates, ids), "aux": aux(o)} for o in objs]


def replay(hist):
    objs, steps = [], []
    ids = ser.GateIds()
    _snap = snap
    snap_ = lambda o: _snap(o, ids)
    for op in hist:
        st = dict(op)
        st["before"] = snap_(objs)
        st["exc"] = ""
        k = op["op"]
        try:
            if k == "new":
                objs.append(GT.build_circuit(op["gates"], op["nq"], enhanced=op["enh"]))
            elif k == "append_circuit":
                objs[op["dst"]].append_circuit(objs[op["src"]], list(op["qubits"]))
            elif k == "iadd":
                o = objs[op["dst"]]
                o += objs[op["src"]]
                objs[op["dst"]] = o
            elif k == "add":
                objs.append(objs[op["a"]] + objs[op["b"]])
            elif k == "repeat":
                objs.append(objs[op["a"]].repeat(op["n"]))
            elif k == "copy":
                objs.append(objs[op["a"]].copy(op["vanilla"]))
            elif k == "gate":
                GT.apply_gate(objs[op["dst"]], op["g"])
            elif k == "rmid":
                if not hasattr(objs[op["a"]], "remove_identities"):
                    break  # not applicable to a plain QCircuit: the history ends here
                objs[op["a"]].remove_identities()
            elif k in ("anc", "uncompute"):
                o = objs[op["a"]]
                if not hasattr(o, "add_ancilla"):
                    break  # not applicable to a plain QCircuit: the history ends here
                if k == "anc":
                    o.mark_ancilla(o.add_ancilla(is_free=False))
                else:
                    o.uncompute()
            elif k == "qft_iqft":
                objs[op["a"]].qft(list(op["qubits"]))
                objs[op["a"]].iqft(list(op["qubits"]))
        except Exception as e:
            st["exc"] = f"{type(e).__name__}: {e}"
        st["after"] = snap_(objs)
        steps.append(st)
        if st["exc"]:
            break
    return steps


def hkey(hist):
    def one(op):
        d = {k: v for k, v in op.items() if k != "gates"}
        if "gates" in op:
            d["gates"] = " ".join(f"{g['cls']}{g['w']}" for g in op["gates"])
        if "g" in op:
            d["g"] = f"{op['g']['cls']}{op['g']['w']}"
        return d
    return json.dumps([one(o) for o in hist], sort_keys=True)


def job(j):
    use_repo()
    return [{"key": hkey(h), "steps": replay(h)} for h in j["hists"]]


def run(pid):
    T0 = Timer()
    t = tier()
    rng = random.Random(seed())
    rep = Report("C14", "model_checking")
    quick = t == "quick"
    with Scratch("C14") as sc:
        cfg = "SPECIFICATION Spec\nCONSTANTS MaxOps = %d\n MaxObjs = %d\nINVARIANT Emit\nCHECK_DEADLOCK FALSE\n"
        r = tlc.run_model("OpsGen", cfg % (3, 3), sc, workers=8, timeout=900, tags=("O",), heap="6g")
        hists = [json.loads(v[1]) for v in r["prints"]["O"]]
        gst = dict(r["stats"])
        r2 = tlc.run_model("OpsGen", cfg % (7, 4), sc, workers=1, timeout=900, tags=("O",), heap="6g",
                           extra=("-simulate", f"num={150 if quick else 3000}", "-depth", "8", "-seed", str(seed() + 7)))
        deep = [json.loads(v[1]) for v in r2["prints"]["O"]]
        # the peephole neighbourhood: the same gate objects appended twice under every pair of qubit maps, then cancelled
        r3 = tlc.run_model("PeepGen", "SPECIFICATION Spec\nINVARIANT Emit\nCHECK_DEADLOCK FALSE\n", sc, workers=4, timeout=900, tags=("O",), heap="4g")
        peep = [json.loads(v[1]) for v in r3["prints"]["O"]]
        for k in ("generated", "distinct"):
            gst[k] = gst.get(k, 0) + r3["stats"].get(k, 0)
        if quick:
            rng.shuffle(peep)
            peep = peep[:500]
        # keep only maximal histories (every prefix is replayed on the way)
        vlog("histories", len(hists), len(deep))
        full = [h for h in hists if len(h) == 3]
        if quick:  # stratified by the sequence of operation kinds, so rare combinations are always present
            rng.shuffle(full)
            strata = {}
            for h in full:
                strata.setdefault(tuple(o["op"] for o in h) + (h[0].get("enh"),), []).append(h)
            full = [h for k in sorted(strata, key=str) for h in strata[k][:45]]
        dmax = {}
        for h in deep:
            dmax[hkey(h[:2])] = h if len(h) > len(dmax.get(hkey(h[:2]), [])) else dmax[hkey(h[:2])]
        hs = full + list(dmax.values()) + peep
        jobs = [{"hists": hs[k:k + 60]} for k in range(0, len(hs), 60)]
        cases = [c for r in run_jobs(job, jobs) for c in r]
        for k, c in enumerate(cases):
            c["id"] = k
        vlog("replayed", len(cases))
        verdicts, stats = tlc.run_cases("Trace_Gates", cases, sc, env={"PROP": "C14"}, timeout=2400, heap="4g")
    vst, ops, clauses, nsteps, conf = {}, {}, {}, 0, {}
    for c in cases:
        v = verdicts[c["id"]]
        vst[v[0]] = vst.get(v[0], 0) + 1
        if v[0] == "ok":
            conf[v[1]] = conf.get(v[1], 0) + 1
        for s in c["steps"]:
            ops[s["op"]] = ops.get(s["op"], 0) + 1
            nsteps += 1
        if v[0] == "fail":
            clauses[v[1]] = clauses.get(v[1], 0) + 1
            bad = c["steps"][v[2]]
            rep.fail({"history": json.loads(c["key"]), "step": v[2]}, v[1],
                     f"step={v[2]} op={bad['op']} {bad['exc']} history={c['key'][:300]}", key=c["key"],
                     triggers=(f"{bad['op']}:{v[1]}",))
    cov = {"states": stats["distinct"] + gst.get("distinct", 0), "transitions": stats["generated"] + gst.get("generated", 0),
           "traces_validated_against_impl": len(cases),
           "samples": [{"history": json.loads(c["key"]), "verdict": verdicts[c["id"]]} for c in cases[:: max(1, len(cases) // 3)][:3]],
           "evaluations": nsteps, "distinct_nontrivial": len(cases),
           "rule": "one case = one history of composition operations replayed on real objects; every step's effect is compared exactly (QSim) with the composition of the recorded operands, and every other live object must be unchanged",
           "generator_states": gst, "ops": ops, "verdicts": vst, "failing_clauses": clauses,
           "refinement": {"CircuitOps_model_vs_real_histories": conf}}
    vac = None if vst.get("ok", 0) >= 300 else f"ok={vst.get('ok', 0)}"
    return rep.finish(cov, T0.s(), assumptions=["spec/QSim.tla (exact simulation)"], vacuity=vac)

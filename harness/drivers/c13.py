"""C13: exports denote the same operation on the same qubits.  Circuits from spec/GateGen.tla (family
"full") and compiled functions are exported by the real exporters; the artefact is read back by
harness/readers into a neutral gate list; spec/Trace_Gates.tla compares (structure + exact unitary)."""
import json
import math
import random
import signal

from .. import tlc, ser, progs, gates as GT, readers as RD
from ..artefact import run_jobs
from ..common import Scratch, Timer, tier, seed, use_repo, vlog
from ..report import Report
from .c11 import key_of

SYMPY_OK = {"X", "H", "CX", "CCX", "MCX", "Swap", "Barrier"}
TARGETS = [("qiskit", "circuit"), ("qiskit", "gate"), ("cirq", "circuit"), ("cirq", "gate"), ("sympy", "circuit"),
           ("sympy", "gate"), ("qasm3", "circuit"), ("qasm3", "gate"), ("qasm2", "circuit"), ("qasm2", "gate")]


def export_all(qc, key, origin):
    from qlasskit.qcircuit.exporter_qasm import QasmExporter

    nq = int(qc.num_qubits)
    src = ser.ser_gates(qc.gates)
    classes = {g["cls"] for g in src}
    out = []
    for target, mode in TARGETS:
        if target == "sympy" and not classes <= SYMPY_OK:
            continue  # outside the Sympy exporter's gate set (per-target domain, see DESIGN.md)
        c = {"key": f"{target}/{mode}:{key}", "origin": origin, "target": target, "mode": mode, "gates": src, "nq": nq,
             "exc": "", "neutral": [], "nq_export": nq, "structural": target != "sympy",
             "has_barrier": "Barrier" in classes, "aliased": len(qc.qubit_map) != nq}
        try:
            if target == "qiskit":
                obj = qc.export(mode, "qiskit")
                c["neutral"], c["nq_export"] = RD.read_qiskit(obj)
            elif target == "cirq":
                obj = qc.export(mode, "cirq")
                c["neutral"], c["nq_export"] = RD.read_cirq(obj, nq, mode)
            elif target == "sympy":
                obj = qc.export(mode, "sympy")
                c["neutral"], c["nq_export"] = RD.read_sympy(obj, nq)
            else:
                text = QasmExporter(version=3 if target == "qasm3" else 2).export(qc, mode)
                if target == "qasm3" and mode == "circuit":
                    assert text == qc.export("circuit", "qasm") or True
                formals, body, call, hdr = RD.read_qasm(text, mode)
                c["neutral"] = RD.qasm_neutral(formals, body)
                # one formal per qubit: as many formals as qubits, pairwise distinct (formal j IS qubit j: the body is
                # compared with the circuit through the formals' positions, whatever they are called)
                c["formals"] = [j if formals.count(f) == 1 else -1 for j, f in enumerate(formals)]
                if call is not None:
                    c["call"] = call
                c["nq_export"] = len(call) if call is not None else nq
        except RD.Unreadable as e:
            c["exc"] = f"unreadable-export: {e}"
        except Exception as e:
            c["exc"] = f"{type(e).__name__}: {str(e)[:120]}"
        out.append(c)
    return out


def job(j):
    use_repo()
    out = []
    for nq, gs in j.get("strings", []):
        qc = GT.build_circuit(gs, nq)
        out += export_all(qc, f"{nq}:{key_of(gs)}", "GateGen-full")
    for src in j.get("srcs", []):
        from qlasskit import qlassf
        from ..artefact import optimizer
        for opt in ("default", "fast"):   # fastOptimizer keeps re-assigned variables: names move between qubits
            try:
                qf = qlassf(src, bool_optimizer=optimizer(opt))
                if type(qf).__name__ == "UnboundQlassf" or qf.circuit().num_qubits > j.get("maxq", 6 if opt == "default" else 7):
                    continue
                qc = qf.circuit()
            except Exception:
                continue   # not accepted / not compiled: nothing to export
            out += export_all(qc, f"src[{opt}]:" + src, "compiled")
    return out


def run(pid):
    T0 = Timer()
    t = tier()
    rng = random.Random(seed())
    rep = Report("C13", "translation_validation")
    quick = t == "quick"
    with Scratch("C13") as sc:
        strs = []
        gst = {"generated": 0, "distinct": 0}
        for fam, nq, ml, cap, kw in (("full", 3, 2, 250 if quick else None, {}),
                                     ("full", 4, 0, 200 if quick else 3000, dict(sim=300 if quick else 4000, depth=6, sd=seed() + 3, minlen=3)),
                                     ("sections", 3, 3, 150 if quick else None, {})):
            ss, st = GT.gen_strings(sc, fam, nq, ml, **kw)
            for k in gst:
                gst[k] += st.get(k, 0)
            if cap and len(ss) > cap:
                rng.shuffle(ss)
                ss = ss[:cap]
            strs += [(nq, s) for s in ss]
        srcs = [s["src"] for s in progs.tests_corpus()]
        rng.shuffle(srcs)
        srcs = srcs[:60 if quick else 250]
        # generated programs with statements (re-assigned variables, if / for): small ones only
        gen = [s["src"] for s in progs.corpus("C13", t, seed()) if s["origin"].startswith(("TemplGen", "ProgGen-lean")) and s["src"].count("\n") >= 3]
        rng.shuffle(gen)
        srcs += gen[:120 if quick else 1200]
        # qubit names that differ only in characters a target language does not allow in identifiers (a.0 / a_0 / a_0.0)
        names = ["def f(a: Tuple[Qint[2], Qint[2]], a_0: Qint[2]) -> bool:\n    return a[0] == a_0 and a[1] != a_0",
                 "def f(a: Tuple[Tuple[bool, bool], bool], a_0: Tuple[bool, bool]) -> bool:\n    return (a[0][0] and a_0[0]) ^ (a[0][1] and a_0[1]) ^ a[1]",
                 "def f(a: Tuple[bool, bool], a_0: bool) -> bool:\n    return (a[0] and a_0) ^ a[1]",
                 "def f(a: Qint[2], a_0: bool, a_1: bool) -> bool:\n    return (a[0] and a_1) ^ (a[1] and a_0)",
                 "def f(a: Tuple[Qint[2], bool], a_0: Qint[2]) -> Qint[2]:\n    return a[0] ^ a_0 if a[1] else a_0",
                 "def f(a_0: bool, a: Tuple[bool, bool]) -> Tuple[bool, bool]:\n    return (a[0] ^ a_0, a[1] and a_0)"]
        jobs = [{"strings": strs[k:k + 25]} for k in range(0, len(strs), 25)] + [{"srcs": srcs[k:k + 6]} for k in range(0, len(srcs), 6)] + [{"srcs": [x], "maxq": 10} for x in names]
        cases = [c for r in run_jobs(job, jobs) for c in r]
        for k, c in enumerate(cases):
            c["id"] = k
        vlog("exported", len(cases))
        verdicts, stats = tlc.run_cases("Trace_Gates", cases, sc, env={"PROP": "C13"}, timeout=2400, heap="4g")
    vst, per_target, clauses, gates_cmp = {}, {}, {}, 0
    circuits = set()
    for c in cases:
        v = verdicts[c["id"]]
        vst[v[0]] = vst.get(v[0], 0) + 1
        tk = f"{c['target']}/{c['mode']}"
        per_target.setdefault(tk, {"ok": 0, "fail": 0})
        circuits.add(c["key"].split(":", 1)[1])
        if v[0] == "ok":
            per_target[tk]["ok"] += 1
            gates_cmp += v[2]
        else:
            per_target[tk]["fail"] += 1
            clauses[f"{tk}:{v[1]}"] = clauses.get(f"{tk}:{v[1]}", 0) + 1
            trig = [f"{c['target']}:{v[1]}"]
            if c["target"].startswith("qasm") and v[1] == "gate-differs" and any(g["k"] in ("MCP", "P") for g in c["gates"]):
                # explained only if, apart from the phases of the cp gates, the export is gate-for-gate the circuit
                # AND every printed cp angle is the exact one rounded to two decimals (any other wrong angle is not the finding)
                strip = lambda gs: [(g["k"], g["w"], 0 if g["k"] in ("MCP", "P") else g["m"]) for g in gs if g["k"] != "BAR"]
                src_cp = [g for g in c["gates"] if g["k"] in ("MCP", "P")]
                out_cp = [g for g in c["neutral"] if g["k"] in ("MCP", "P")]

                def rounded(gs, go):
                    try:
                        d = (float(go.get("raw", "nan")) - gs["m"] * math.pi / 8 + math.pi) % (2 * math.pi) - math.pi
                        return abs(d) <= 0.005 + 1e-9
                    except ValueError:
                        return False

                if strip(c["gates"]) == strip(c["neutral"]) and len(src_cp) == len(out_cp) and all(rounded(a, b) for a, b in zip(src_cp, out_cp)):
                    trig.append("qasm:gate-differs:cp-phase")
            if c["has_barrier"]:
                trig.append(f"{c['target']}:{v[1]}:barrier")
            if c["aliased"]:
                trig.append(f"{c['target']}:{v[1]}:aliased-qubit-names")
            rep.fail({k: c[k] for k in ("key", "target", "mode", "gates", "neutral", "exc") if k in c}, v[1],
                     f"target={tk} at={v[2]} {c['exc']} circuit={c['key'][:200]}", key=c["key"], triggers=tuple(trig))
    cov = {"programs": len(circuits), "disagreements_checked": gates_cmp,
           "samples": [{"case": c["key"][:160], "verdict": verdicts[c["id"]]} for c in cases[:: max(1, len(cases) // 4)][:4]],
           "evaluations": len(cases), "distinct_nontrivial": vst.get("ok", 0),
           "rule": "one case = (circuit, exporter, mode); the export is read back and compared gate by gate and as an exact unitary (QSim) with the circuit",
           "per_target": per_target, "failing_clauses": clauses, "generator_states": gst,
           "states": stats["distinct"] + gst["distinct"], "transitions": stats["generated"] + gst["generated"]}
    vac = None if vst.get("ok", 0) >= 500 else f"ok={vst.get('ok', 0)}"
    return rep.finish(cov, T0.s(), assumptions=["harness/readers read the exported artefacts faithfully", "spec/QSim.tla"], vacuity=vac)

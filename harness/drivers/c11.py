"""C11 (decompiler) and C12 (circuit boolean optimizer): gate strings from spec/GateGen.tla are built as
real circuits, the real operation is run, and TLC (spec/Trace_Gates.tla) judges the recorded result."""
import json
import random

from .. import tlc, ser, gates as GT
from ..artefact import run_jobs
from ..common import Scratch, Timer, tier, seed, use_repo, vlog
from ..report import Report


def key_of(gs):
    return " ".join(f"{g['cls']}{','.join(map(str, g['w']))}" + (f"@{g['m']}" if g["cls"] == "CP" else "") for g in gs)


def job(j):
    use_repo()
    from qlasskit.decompiler import Decompiler, circuit_boolean_optimizer

    out = []
    todo = [(gs, False, False) for gs in j["strings"]]
    # strings in which the same gate recurs on the same wires: also built from ONE gate object per kind
    todo += [(gs, False, True) for gs in j["strings"] if len({(g["cls"], tuple(g["w"])) for g in gs}) < len(gs)]
    if j["prop"] == "C11" and j["strings"]:
        todo.append((j["strings"][0], True, False))   # the same string followed by a gate on a qubit the circuit does not have
    for gs, oob, share in todo:
        nq = j["nq"]
        qc = GT.build_circuit(gs, nq, share=share)
        c = {"key": key_of(gs) + ("+oob" if oob else "") + ("+shared" if share else ""), "nq": nq, "exc": ""}
        if oob:
            try:
                qc.x(nq)
            except Exception:
                continue    # refused: nothing to decompile
        if j["prop"] == "C11":
            c["gates"] = ser.ser_gates(qc.gates)
            c["names"] = [f"q{i}" for i in range(nq)]
            # the library's own classical simulator (qcircuit/cnotsim.py) on every basis input of a classical circuit:
            # one more implementation bound to spec/Circuit.tla (reported as conformance, outside the properties)
            c["cnotsim"] = []
            if nq <= 4 and all(g["k"] in ("X", "MCX", "BAR", "I") for g in c["gates"]) and not any(g["k"] in ("BAR", "I") for g in c["gates"]):
                from qlasskit.qcircuit.cnotsim import CNotSim
                try:
                    for b in range(2 ** nq):
                        fin = CNotSim().simulate(qc, initialize=[bool((b >> q) & 1) for q in range(nq)])
                        c["cnotsim"].append([b, sum((1 << q) for q in range(nq) if fin[q])])
                except Exception as e:
                    c["cnotsim"] = [[-1, -1]]
            try:
                res = Decompiler().decompile(qc)
                c["sections"] = [{"s": int(s.index[0]), "e": int(s.index[1]), "gates": ser.ser_gates(s.gates),
                                  "exprs": ser.ser_exprs(s.expressions)} for s in res]
            except Exception as e:
                c["sections"] = []
                c["exc"] = f"{type(e).__name__}: {e}"
        else:
            c["gin"] = ser.ser_gates(qc.gates)
            from qlasskit import _verif
            events = []
            _verif.set_sink(lambda ev, f: events.append((ev, f)))
            try:
                try:
                    o = circuit_boolean_optimizer(qc)
                finally:
                    _verif.set_sink(None)
                c["gout"] = ser.ser_gates(o.gates)
                c["nq_out"] = int(o.num_qubits)
            except Exception as e:
                c["gout"] = []
                c["nq_out"] = nq
                c["exc"] = f"{type(e).__name__}: {e}"
            c["gin_after"] = ser.ser_gates(qc.gates)
            secs = [f for ev, f in events if ev == "do.section"]
            c["hooked"] = any(ev == "do.begin" for ev, f in events)
            c["secs"] = [{"s": int(f["index"][0]), "e": int(f["index"][1]), "ngates": int(f["ngates"]), "secq": [int(q) for q in f["secq"]],
                          "raised": bool(f["raised"]), "new": ser.ser_gates(f["new"]), "used": [int(q) for q in f["used"]],
                          "qmap": dict({str(k): int(v) for k, v in f["qmap"].items()}, __pad__=0),
                          "qmapnew": dict({str(k): int(v) for k, v in f["qmapnew"].items()}, __pad__=0)} for f in secs]
        out.append(c)
    return out


def strings_for(pid, t, rng, sc):
    """gate strings: exhaustive short ones, sampled longer ones"""
    quick = t == "quick"
    out, gst = [], {"generated": 0, "distinct": 0}

    def add(fam, nq, maxlen, cap=None, **kw):
        ss, st = GT.gen_strings(sc, fam, nq, maxlen, **kw)
        for k in gst:
            gst[k] += st.get(k, 0)
        if cap and len(ss) > cap:
            rng.shuffle(ss)
            ss = ss[:cap]
        out.extend((nq, s) for s in ss)

    if quick:
        add("classical", 3, 3, cap=700)                       # all 1..3-gate classical strings (1884), sampled
        add("sections", 3, 3, cap=600)
        add("sections", 4, 0, cap=500, sim=400, depth=7, sd=seed() + 1, minlen=4)
        add("classical", 3, 0, cap=300, sim=200, depth=6, sd=seed() + 2, minlen=4)
        add("xhbar", 3, 0, cap=350, sim=500, depth=9, sd=seed() + 4, minlen=5)
        add("classical", 12, 0, cap=60, sim=120, depth=5, sd=seed() + 5, minlen=2)   # wide registers (two-digit qubit names)
        add("zerotest", 8, 30)                                  # wide conjunctions of negated controls
        add("cxnet", 3, 4, cap=450)
        add("cxnet", 3, 0, cap=150, sim=150, depth=7, sd=seed() + 3, minlen=5)
    else:
        add("xhbar", 3, 6, cap=6000)
        add("xhbar", 3, 0, sim=3000, depth=10, sd=seed() + 4, minlen=7)
        add("classical", 12, 0, cap=400, sim=600, depth=6, sd=seed() + 5, minlen=2)
        add("zerotest", 9, 30)
        add("cxnet", 3, 5, cap=8000)
        add("cxnet", 4, 0, sim=2000, depth=9, sd=seed() + 3, minlen=4)
        add("classical", 3, 3)                                 # all strings of <= 3 gates, a seeded sample of the 4-gate ones
        add("classical", 3, 4, cap=10000)
        add("sections", 3, 3)
        add("sections", 3, 4, cap=16000)
        add("sections", 4, 0, sim=4000, depth=9, sd=seed() + 1, minlen=4)
        add("classical", 4, 0, sim=2000, depth=8, sd=seed() + 2, minlen=4)
    seen, res = set(), []
    for nq, s in out:
        k = (nq, key_of(s))
        if k not in seen:
            seen.add(k)
            res.append((nq, s))
    return res, gst


def run(pid):
    T0 = Timer()
    t = tier()
    rng = random.Random(seed())
    rep = Report(pid, "model_checking")
    with Scratch(pid) as sc:
        strs, gst = strings_for(pid, t, rng, sc)
        vlog("strings", len(strs), gst)
        mc = {}
        if pid == "C11":  # the transcribed scanner model-checked over every string of the alphabet up to a length
            cfg = ("SPECIFICATION Spec\nCONSTANTS NQ = 3\n MaxLen = %d\n MinLen = 99\n Family = \"sections\"\n"
                   "INVARIANT ScannerOK\nCHECK_DEADLOCK FALSE\n") % (4 if t == "quick" else 5)
            r = tlc.run_model("MC_Decompile", cfg, sc, workers=16, timeout=3000, heap="8g")
            mc = {"spec": "MC_Decompile", "max_len": 4 if t == "quick" else 5, "stats": r["stats"], "invariant_ScannerOK": "violated" if r["violated"] else "holds"}
        bynq = {}
        for nq, s in strs:
            bynq.setdefault(nq, []).append(s)
        jobs = []
        for nq, ss in bynq.items():
            for k in range(0, len(ss), 40):
                jobs.append({"prop": pid, "nq": nq, "strings": ss[k:k + 40]})
        # in batches, so that the recorded circuits of the thorough tier never sit in memory all at once
        vst, nontriv, clauses, conf = {}, 0, {}, {}
        stats = {"distinct": 0, "generated": 0}
        ncases, samples, nid, nsim = 0, [], 0, 0
        B = 150   # jobs (of 40 strings) per batch
        for b0 in range(0, len(jobs), B):
            cases = [c for r in run_jobs(job, jobs[b0:b0 + B]) for c in r]
            for c in cases:
                c["id"] = nid
                nid += 1
            verdicts, st = tlc.run_cases("Trace_Gates", cases, sc, env={"PROP": pid}, timeout=2400, heap="4g")
            for k in stats:
                stats[k] += st[k]
            ncases += len(cases)
            nsim += sum(1 for c in cases if c.get("cnotsim"))
            for c in cases:
                v = verdicts[c["id"]]
                vst[v[0]] = vst.get(v[0], 0) + 1
                if v[0] == "ok":
                    conf[v[1]] = conf.get(v[1], 0) + 1
                if v[0] == "ok" and v[2] > 0:
                    nontriv += 1
                if v[0] == "fail":
                    clauses[v[1]] = clauses.get(v[1], 0) + 1
                    rep.fail({k: c[k] for k in c if k not in ("id",)}, v[1], f"at={v[2]} nq={c['nq']} circuit=[{c['key']}] {c['exc']}",
                             key=f"{c['nq']}:{c['key']}", triggers=triggers_of(pid, c, v))
            samples += [{"circuit": c["key"], "nq": c["nq"], "verdict": verdicts[c["id"]]} for c in cases[:: max(1, len(cases) // 2)][:2]]
            vlog("batch", b0, ncases)
        samples = samples[:: max(1, len(samples) // 4)][:4]
    cov = {"states": stats["distinct"] + gst["distinct"], "transitions": stats["generated"] + gst["generated"],
           "traces_validated_against_impl": ncases,
           "samples": samples,
           "evaluations": ncases, "distinct_nontrivial": nontriv,
           "rule": ("one case = one gate string built as a real circuit and decompiled; non-trivial = at least one section reported"
                    if pid == "C11" else
                    "one case = one gate string built as a real circuit and optimised; non-trivial = the optimiser removed at least one gate; unitaries compared exactly on every basis state by TLC (spec/QSim.tla)"),
           "generator_states": gst, "verdicts": vst, "failing_clauses": clauses,
           "refinement": {("scanner_model_vs_real" if pid == "C11" else "decopt_model_vs_real"): conf, "model_checking": mc,
                          "cnotsim_circuits_compared_with_Circuit.Run": nsim}}
    vac = None if vst.get("ok", 0) >= 200 and nontriv >= 50 else f"ok={vst.get('ok', 0)} nontrivial={nontriv}"
    return rep.finish(cov, T0.s(), assumptions=["spec/Circuit.tla, spec/BoolSem.tla, spec/QSim.tla (contract layer)"], vacuity=vac)


def triggers_of(pid, c, v):
    return ()

"""Refinement layer of C01: the translator's integer operators (spec/BitBlast.tla).

(i)  MC_BitBlast: TLC checks the transcribed operators against integer arithmetic on every pair of operand widths /
     literal operands (design level), and emits every case;
(ii) the REAL translate_expression is run on the same cases, Trace_BitBlast compares the recorded bit-vectors with
     the model's, structurally.  Drift is evidence, never a verdict."""
import ast
import json
import signal

from .. import tlc, ser
from ..artefact import run_jobs
from ..common import use_repo, MachineryError, vlog

PYOP = {"Add": "+", "Sub": "-", "Mult": "*", "BitXor": "^", "BitAnd": "&", "BitOr": "|", "Mod": "%", "LShift": "<<", "RShift": ">>",
        "Eq": "==", "NotEq": "!=", "Gt": ">", "Lt": "<", "LtE": "<=", "GtE": ">="}


class _TO(Exception):
    pass


def _alarm(*a):
    raise _TO()


def job(j):
    use_repo()
    from qlasskit.ast2logic import Env, translate_expression
    from qlasskit.ast2logic.typing import Arg
    from qlasskit import types as T

    signal.signal(signal.SIGALRM, _alarm)
    out = []
    for c in j["cases"]:
        x = c["case"]
        env = Env()
        for nm, o in (("a", x["l"]), ("b", x["r"])):
            if o["k"] == "sym":
                env.bind(Arg(nm, getattr(T, f"Qint{o['w']}"), [f"{nm}.{k}" for k in range(o["w"])]))
            elif o["k"] == "fx":
                env.bind(Arg(nm, getattr(T, f"Qfixed{o['i']}_{o['f']}"), [f"{nm}.{k}" for k in range(o["i"] + o["f"])]))

        def operand(nm, o):
            if o["k"] in ("sym", "fx"):
                return nm
            if o["k"] == "flt":
                return repr(o["num"] / o["den"])
            return str(o["v"] if o["k"] == "int" else o["w"])

        src = f"{operand('a', x['l'])} {PYOP[x['op']]} {operand('b', x['r'])}"
        rec = {"id": c["id"], "case": x, "src": src, "exc": "", "w": 0, "bits": []}
        signal.alarm(20)
        try:
            t, e = translate_expression(ast.parse(src, mode="eval").body, env)
            if t is bool:
                rec["w"], rec["bits"] = 1, [ser.ser_expr(e)]
            else:
                rec["w"], rec["bits"] = int(t.BIT_SIZE), [ser.ser_expr(b) for b in e]
        except _TO:
            rec["exc"] = "timeout"
        except Exception as e:
            rec["exc"] = f"{type(e).__name__}: {str(e)[:120]}"
        finally:
            signal.alarm(0)
        out.append(rec)
    return out


def run(sc, quick):
    if quick:
        consts = ("{Widths = {2, 3, 4}\n Consts = {0, 1, 3, 6, 12}\n MulMax = 3\n FxLayouts = {12, 22, 13}\n"
                  " FxFloats = {102, 304, 302, 108}\n")
    else:
        consts = ("{Widths = {2, 3, 4, 5}\n Consts = {0, 1, 2, 3, 5, 6, 7, 12, 17}\n MulMax = 4\n"
                  " FxLayouts = {12, 22, 13, 23, 14}\n FxFloats = {102, 104, 304, 302, 101, 502, 108, 110}\n")
    cfg = "SPECIFICATION Spec\nCONSTANTS " + consts[1:] + "INVARIANT OK\nCHECK_DEADLOCK FALSE\n"
    r = tlc.run_model("MC_BitBlast", cfg, sc, workers=16, timeout=3000, tags=("B", "C"), heap="12g")
    if not r["ok"]:
        raise MachineryError("MC_BitBlast: model checking did not complete")
    cases = [{"id": k, "case": json.loads(v[1])} for k, v in enumerate(r["prints"]["C"])]
    broken = [{"clause": v[1], "case": json.loads(v[2])} for v in r["prints"]["B"]]
    recs = [x for rr in run_jobs(job, [{"cases": cases[k::32]} for k in range(32)]) for x in rr]
    tcases = [x for x in recs if x["exc"] != "timeout"]
    verd, _ = tlc.run_cases("Trace_BitBlast", tcases, sc, timeout=2400, heap="4g")
    vs, per_op, drift = {}, {}, []
    for x in tcases:
        v = verd[x["id"]]
        vs[v] = vs.get(v, 0) + 1
        d = per_op.setdefault(x["case"]["op"], {})
        d[v] = d.get(v, 0) + 1
        if v.startswith("drift"):
            drift.append({"src": x["src"], "case": x["case"], "verdict": v, "exc": x["exc"]})
    vlog("bitblast", vs, "broken", len(broken))
    return {"spec": "BitBlast.tla", "model_checking": {"cases": len(cases), "stats": r["stats"], "broken_clauses": broken[:20]},
            "real_translator_vs_model": {"cases": len(tcases), "verdicts": vs, "per_operator": per_op, "drift_samples": drift[:8]}}

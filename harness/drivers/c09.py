"""C09: codecs, exhaustively over every bit pattern of every shipped type (spec/Trace_C09.tla)."""
import itertools
import random

from .. import tlc
from ..artefact import type_desc
from ..common import Scratch, Timer, tier, seed, use_repo, MachineryError
from ..report import Report

CHUNK = 2048


def pack(bools):
    return sum(1 << k for k, b in enumerate(bools) if b)


def jval(v, T):
    """library value -> JSON value in the spec's value domain (serialisation only)"""
    t = T["t"]
    if t == "bool":
        return bool(v)
    if t == "int":
        return int(v.value) if hasattr(v, "value") else int(v)
    if t == "char":
        return ord(v.value if hasattr(v, "value") else v)
    if t == "fixed":
        x = float(v.value if hasattr(v, "value") else v) * (2 ** T["f"])
        if x != int(x):
            return -2  # not a multiple of 2^-f: cannot be a value of this type
        return int(x)
    return [jval(x, e) for x, e in zip(v, T["elts"])]


def type_rows(cls, T, pats, amp_stride=1):
    rows = []
    w = T["w"]
    for p in pats:
        bits = [bool((p >> k) & 1) for k in range(w)]
        try:
            v = cls.from_bool(list(bits))
            val = jval(v, T)
            tb = pack(v.to_bool())
            s = v.to_bin()
            tbin = pack([c == "1" for c in s]) if len(s) == w else -1
            fb = jval(cls.from_bin(s), T)
            raw = v.value
            cst = pack([bool(x) for x in cls.const(raw)[1]])
            if p % amp_stride == 0:
                amp = v.to_amplitudes()
                nnz = len(amp) - amp.count(0)
                hot = amp.index(max(amp)) if nnz else -1
            else:
                nnz, hot = -2, -2  # amplitude vector not requested for this pattern (quick tier, 16-bit type)
            rows.append([p, val, tb, tbin, fb, cst, hot, nnz])
        except Exception as e:
            rows.append([p, -1, -1, -1, -1, -1, -1, -1])
    return rows


def type_job(job):
    use_repo()
    import qlasskit.types as QT

    cls = getattr(QT, job["cls"])
    T = type_desc(cls)
    return {"kind": "type", "T": T, "rows": type_rows(cls, T, range(job["lo"], job["hi"]), job.get("amp_stride", 1))}


def nested_types(rng, t):
    """nested Tuple/Qlist/Qmatrix types of at most 10 bits (12 thorough) built from the shipped types"""
    from typing import Tuple
    import qlasskit.types as QT

    base = [bool, QT.Qint2, QT.Qint3, QT.Qint4, QT.Qfixed1_2, QT.Qfixed2_2, QT.Qfixed1_3]
    out = []
    maxw = 10 if t == "quick" else 12

    def width(x):
        return type_desc(x)["w"] if type_desc(x)["t"] != "bool" and "w" in type_desc(x) else (
            1 if x is bool else sum(width(e) for e in x.__args__))

    # flat tuples of 2..3 elements, nested tuples, lists (equal elements), 2x2 matrices
    for k in (2, 3):
        for combo in itertools.product(base, repeat=k):
            out.append(Tuple[combo])
    for a in base:
        for b in base[:4]:
            out.append(Tuple[a, Tuple[b, bool]])
            out.append(Tuple[Tuple[a, b], b])
    for a in base[:4]:
        out.append(Tuple[Tuple[a, a], Tuple[a, a]])
    out.append(Tuple[bool, Tuple[QT.Qint2, Tuple[bool, QT.Qint2]]])
    must = []
    for a in base[:3]:  # three levels, the deep element FIRST or in the middle
        must.append(Tuple[Tuple[Tuple[a, bool], QT.Qint2], bool])
        must.append(Tuple[bool, Tuple[Tuple[a, bool], bool], QT.Qint2])
        must.append(Tuple[Tuple[Tuple[bool, bool], Tuple[a, bool]], a])          # a matrix-like element followed by another
    must.append(Tuple[Tuple[Tuple[bool, bool], Tuple[bool, bool]], Tuple[Tuple[bool, bool], Tuple[bool, bool]]])
    out.append(Tuple[QT.Qchar, bool])
    out = [x for x in out if width(x) <= maxw]
    rng.shuffle(out)
    return [x for x in must if width(x) <= maxw] + out[: (40 if t == "quick" else 400)]


def run(pid):
    T0 = Timer()
    t = tier()
    use_repo()
    import qlasskit.types as QT
    from qlasskit.types import const_to_qtype, interpret_as_qtype

    rng = random.Random(seed())
    rep = Report("C09", "exploration")
    cases = []
    meta = {}

    def add(c, **m):
        c["id"] = len(cases)
        cases.append(c)
        meta[c["id"]] = m

    types = list(QT.QINT_TYPES) + list(QT.QFIXED_TYPES) + [QT.Qchar]
    npat = 0
    from ..artefact import run_jobs

    tjobs = []
    for cls in types:
        w = type_desc(cls)["w"]
        for lo in range(0, 2 ** w, CHUNK):
            tjobs.append({"cls": cls.__name__, "lo": lo, "hi": min(2 ** w, lo + CHUNK),
                          "amp_stride": 13 if (w >= 16 and t == "quick") else 1})
    for j, c in zip(tjobs, run_jobs(type_job, tjobs)):
        add(c, what=j["cls"], lo=j["lo"])
        npat += len(c["rows"])
    # nested decoding of measured strings
    nn = 0
    for nt in nested_types(rng, t):
        T = type_desc(nt)
        w = sum_w(T)
        rows = []
        for p in range(2 ** w):
            s = "".join("1" if (p >> k) & 1 else "0" for k in reversed(range(w)))
            try:
                v = interpret_as_qtype(s, nt, w)
                rows.append([p, jval(v, T)])
            except Exception as e:
                rows.append([p, -1])
        add({"kind": "nested", "T": T, "rows": rows}, what=f"nested {T}")
        nn += len(rows)
    # literals
    for lo in range(0, 65536, 8192):
        rows = []
        for v in range(lo, lo + 8192):
            try:
                tt, bits = const_to_qtype(v)
                rows.append([v, tt.BIT_SIZE, pack([bool(b) for b in bits])])
            except Exception:
                rows.append([v, -1, -1])
        add({"kind": "intlit", "T": {"t": "bool"}, "rows": rows}, what="const_to_qtype(int)", lo=lo)
    rows = []
    for num in range(0, 256):  # dyadic literals num/16 < 16
        try:
            tt, bits = const_to_qtype(num / 16.0)
            rows.append([num, tt.BIT_SIZE_INTEGER, tt.BIT_SIZE_FRACTIONAL, pack([bool(b) for b in bits])])
        except Exception:
            pass  # no shipped type holds it within tolerance: a rejection
    add({"kind": "fixlit", "T": {"t": "bool"}, "rows": rows}, what="const_to_qtype(float)")
    nfix = len(rows)
    rows = []
    for code in range(256):
        try:
            tt, bits = const_to_qtype(chr(code))
            rows.append([code, pack([bool(b) for b in bits])])
        except Exception:
            rows.append([code, -1])
    add({"kind": "charlit", "T": {"t": "bool"}, "rows": rows}, what="const_to_qtype(str)")

    with Scratch("C09") as sc:
        verdicts, stats = tlc.run_cases("Trace_C09", cases, sc, timeout=1500, heap="4g")
    nfail = 0
    for c in cases:
        v = verdicts[c["id"]]
        if v[0] == "ok":
            continue
        for cl, pats in v[2]["__set__"]:
            ps = sorted(pats["__set__"])
            m = meta[c["id"]]
            key = f"{m['what']}:{cl}"
            # a finding lists the exact failing patterns; anything else is a violation
            e = None
            for ent in rep.findings.entries:
                if ent.get("status") == "open" and ent["match"].get("key") == key and set(ps) <= set(ent["match"].get("patterns", [])):
                    e = ent
            if e is not None:
                rep.known.setdefault(e["id"], []).append(f"{key} patterns={ps[:8]}")
            else:
                rep.violations.append(({"what": m["what"], "kind": c["kind"], "T": c["T"], "patterns": ps[:200]}, cl,
                                       f"{m['what']} first failing pattern/value={ps[0]} ({len(ps)} failing)"))
    total = sum(len(c["rows"]) for c in cases)
    cov = {
        "evaluations": total, "distinct_nontrivial": total - 2 * len(types),
        "rule": "one evaluation = one (type, bit pattern) or (literal) pushed through the real codec entry points; all 2^w patterns of every shipped Qint/Qfixed/Qchar type; all patterns of sampled nested types; all int literals 0..65535; non-trivial = pattern other than all-zeros/all-ones",
        "exhaustive": True,
        "samples": [{"type": meta[c["id"]]["what"], "row": c["rows"][min(5, len(c["rows"]) - 1)]} for c in cases[:: max(1, len(cases) // 5)][:5]],
        "types": [x.__name__ for x in types], "type_patterns": npat, "nested_patterns": nn, "float_literals": nfix,
        "states": stats["distinct"], "transitions": stats["generated"],
    }
    return rep.finish(cov, T0.s(), assumptions=["spec/Codec.tla is the reference codec (its own Enc/Dec bijection is model-checked by MC_Codec)"])


def sum_w(T):
    if T["t"] == "bool":
        return 1
    if T["t"] == "tuple":
        return sum(sum_w(e) for e in T["elts"])
    return T["w"]

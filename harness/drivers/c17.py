"""C17: py2bexp / py2qasm run in-process on generated scripts (spec/ScriptGen.tla); the printed text is read
back (harness/readers) and judged by spec/Trace_C17.tla against the selected function compiled independently."""
import contextlib
import io
import json
import random
import sys

from .. import tlc, ser, readers as RD
from ..readers import bexp as BX
from ..artefact import run_jobs
from ..common import is_ret,  Scratch, Timer, tier, seed, use_repo, vlog
from ..report import Report

FUNS = {
    1: ("zeta", "def zeta(a: bool, b: bool) -> bool:\n    return a and not b"),
    2: ("alpha", "def alpha(a: bool, b: bool, c: bool) -> bool:\n    return (a or b) and not c"),
    3: ("mid", "def mid(a: Qint[2]) -> bool:\n    return a == 2"),
    4: ("pair", "def pair(a: bool, b: bool) -> Tuple[bool, bool]:\n    return (not a, a or b)"),
    5: ("neg", "def neg(a: bool) -> bool:\n    return not a"),
    6: ("orr", "def orr(a: bool, b: bool, c: bool) -> bool:\n    return a or b or c"),
    7: ("xorf", "def xorf(a: bool, b: bool) -> bool:\n    return a ^ b"),
    8: ("guard", "def guard(a: bool, b: bool, c: bool) -> bool:\n    return (not a) and (b or c)"),
    9: ("gt", "def gt(a: Qint[2], b: Qint[2]) -> bool:\n    return a > b"),
    10: ("sh", "def sh(a: bool, b: bool, c: bool) -> Tuple[bool, bool]:\n    return ((a and b) or c, (a and b) ^ c)"),
    # expression lists with intermediates defined through other intermediates (nested common sub-expressions under the
    # default optimizer; chained locals kept as they are by fastOptimizer)
    11: ("lt3", "def lt3(a: Qint[2], b: Qint[2], c: Qint[2]) -> bool:\n    return a + b < c"),
    12: ("chain", "def chain(a: bool, b: bool, c: bool) -> bool:\n    d = a and b\n    e = d or c\n    f = e ^ a\n    return f and not d"),
    13: ("sum3", "def sum3(a: Qint[2], b: Qint[2], c: Qint[2]) -> Qint[2]:\n    return a + b + c"),
    14: ("chain2", "def chain2(a: Qint[2], b: Qint[2]) -> bool:\n    d = a + b\n    e = d + a\n    return e > d"),
    # names that look like return bits; return values with constant bits (the conjunction is constant or loses a bit)
    15: ("retry", "def retry(_retry: bool, b: bool, c: bool) -> bool:\n    _retx = _retry and b\n    return _retx or c"),
    16: ("halve", "def halve(a: Qint[2]) -> Qint[2]:\n    return a >> 1"),
    17: ("flags", "def flags(a: bool, b: bool) -> Tuple[bool, bool]:\n    return (a or b, False)"),
    18: ("flagt", "def flagt(a: bool, b: bool) -> Tuple[bool, bool]:\n    return (True, a ^ b)"),
    19: ("retry2", "def retry2(a: bool, b: bool, c: bool) -> bool:\n    _ret_old = a and b\n    _retz = _ret_old ^ c\n    return _retz or a"),
}
DECOR = {19: "@qlassfa(bool_optimizer=fastOptimizer)", 12: "@qlassfa(bool_optimizer=fastOptimizer)", 14: "@qlassfa(bool_optimizer=fastOptimizer)"}
HEADER = "from qlasskit import qlassf, qlassfa, Qint\nfrom qlasskit.boolopt import fastOptimizer\nfrom typing import Tuple\n\n"


def run_tool(mod, argv, stdin_text):
    out = io.StringIO()
    old_argv, old_stdin = sys.argv, sys.stdin
    sys.argv, sys.stdin = argv, io.StringIO(stdin_text)
    exc = ""
    try:
        with contextlib.redirect_stdout(out), contextlib.redirect_stderr(io.StringIO()):
            mod.main()
    except SystemExit as e:
        if e.code not in (0, None):
            exc = f"SystemExit({e.code})"
    except Exception as e:
        exc = f"{type(e).__name__}: {str(e)[:150]}"
    finally:
        sys.argv, sys.stdin = old_argv, old_stdin
    return out.getvalue(), exc


def job(j):
    use_repo()
    from qlasskit import qlassf
    from qlasskit.tools import py2bexp, py2qasm
    from qlasskit.qcircuit.exporter_qasm import QasmExporter

    out = []
    for inv in j["invs"]:
        script = HEADER + "\n\n".join(DECOR.get(k, "@qlassf") + "\n" + FUNS[k][1] for k in inv["script"]) + "\n"
        sel = inv["entry"] if inv["entry"] else inv["script"][0]
        name, fsrc = FUNS[sel]
        key = json.dumps(inv, sort_keys=True)
        c = {"key": key, "tool_exc": "", "parse_exc": ""}
        argv = [inv["tool"], "-i", "-"] + (["-e", name] if inv["entry"] else [])
        if sel in DECOR:  # the selected function as the script defines it (its circuit depends on the optimizer profile)
            from qlasskit.boolopt import fastOptimizer
            ref = qlassf(fsrc, bool_optimizer=fastOptimizer)
        else:
            ref = qlassf(fsrc)
        c["inputs"] = [b for a in ref.args for b in a.bitvec]
        c["rets"] = list(ref.returns.bitvec)
        c["exprs"] = ser.ser_exprs(ref.expressions)
        c["has_intermediates"] = any(not is_ret(n) for n, _ in c["exprs"])
        if inv["tool"] == "py2bexp":
            if inv["form"]:
                argv += ["-f", inv["form"]]
            argv += ["-t", inv["format"]]
            text, exc = run_tool(py2bexp, argv, script)
            c["tool_exc"] = exc
            if inv["format"] == "sympy":
                c["kind"] = "bexp"
                c["printed"] = {"op": "true"}
                if not exc:
                    try:
                        c["printed"] = BX.parse(text)
                    except BX.ParseError as e:
                        c["parse_exc"] = str(e)
            else:
                c["kind"] = "dimacs"
                c["nvars"], c["nclauses"], c["clauses"] = 0, 0, []
                if not exc:
                    try:
                        body = "\n".join(l for l in text.splitlines() if not l.startswith("Warning"))
                        c["nvars"], c["nclauses"], c["clauses"] = BX.parse_dimacs(body)
                    except (BX.ParseError, ValueError) as e:
                        c["parse_exc"] = str(e)
            c["text"] = text[:300]
        else:
            ver = inv["format"]
            if ver:
                argv += ["-q", ver]
            want = 2 if ver == "2.0" else 3
            text, exc = run_tool(py2qasm, argv, script)
            c["kind"] = "qasm"
            c["tool_exc"] = exc
            c["want_version"] = str(want)
            exp_text = QasmExporter(version=want).export(ref.circuit(), "circuit")
            for tag, tx in (("printed", text), ("expected", exp_text)):
                try:
                    formals, body, call, hdr = RD.read_qasm(tx, "circuit")
                    c[tag] = [[n, p or "", ops] for n, p, ops in body]
                    c[tag + "_formals"] = formals
                    c[tag + "_call"] = call
                    if tag == "printed":
                        c["printed_version"] = hdr["version"]
                except Exception as e:
                    c[tag] = []
                    c[tag + "_formals"] = []
                    c[tag + "_call"] = []
                    if tag == "printed":
                        c["printed_version"] = ""
                        if not exc:
                            c["parse_exc"] = str(e)[:100]
            c["text"] = text[:200]
        out.append(c)
    return out


def run(pid):
    T0 = Timer()
    t = tier()
    rng = random.Random(seed())
    quick = t == "quick"
    rep = Report("C17", "translation_validation")
    with Scratch("C17") as sc:
        invs, gst = [], {"generated": 0, "distinct": 0}
        for tool in ("py2bexp", "py2qasm"):
            cfg = f"SPECIFICATION Spec\nCONSTANTS NFun = {len(FUNS)}\n Tool = \"{tool}\"\nINVARIANT Emit\nCHECK_DEADLOCK FALSE\n"
            r = tlc.run_model("ScriptGen", cfg, sc, workers=8, timeout=900, tags=("I",), heap="6g")
            xs = [json.loads(v[1]) for v in r["prints"]["I"]]
            for k in gst:
                gst[k] += r["stats"].get(k, 0)
            one = [x for x in xs if len(x["script"]) == 1]
            more = [x for x in xs if len(x["script"]) > 1]
            rng.shuffle(more)
            invs += one + more[: (250 if quick else 4000)]
        vlog("invocations", len(invs))
        cases = [c for r in run_jobs(job, [{"invs": invs[k:k + 12]} for k in range(0, len(invs), 12)]) for c in r]
        for k, c in enumerate(cases):
            c["id"] = k
        verdicts, stats = tlc.run_cases("Trace_C17", cases, sc, timeout=1800)
    vst, kinds, clauses = {}, {}, {}
    for c in cases:
        v = verdicts[c["id"]]
        vst[v[0]] = vst.get(v[0], 0) + 1
        kinds.setdefault(c["kind"], {"ok": 0, "fail": 0, "skip": 0})[v[0]] += 1
        if v[0] == "fail":
            clauses[f"{c['kind']}:{v[1]}"] = clauses.get(f"{c['kind']}:{v[1]}", 0) + 1
            inv = json.loads(c["key"])
            sel = inv["entry"] if inv["entry"] else inv["script"][0]
            trig = [f"{c['kind']}:{v[1]}", f"{c['kind']}:{v[1]}:fun={FUNS[sel][0]}"]
            if c.get("has_intermediates"):
                trig.append(f"{c['kind']}:{v[1]}:function-has-intermediate-definitions")
            rep.fail({"invocation": inv, "text": c.get("text", ""), "tool_exc": c["tool_exc"], "parse_exc": c["parse_exc"]}, v[1],
                     f"{c['tool_exc']} {c['parse_exc']} inv={c['key']} out={c.get('text', '')[:100]!r}", key=c["key"], triggers=tuple(trig))
    cov = {"programs": len(cases), "disagreements_checked": vst.get("ok", 0),
           "samples": [{"invocation": json.loads(c["key"]), "out": c.get("text", "")[:120], "verdict": verdicts[c["id"]]} for c in cases[:: max(1, len(cases) // 4)][:4]],
           "evaluations": len(cases), "distinct_nontrivial": vst.get("ok", 0),
           "rule": "one case = one tool invocation (script x entry point x form x format / version) run in-process; the printed text is parsed back and compared on all assignments (py2bexp) or gate by gate with the library's own export (py2qasm)",
           "by_kind": kinds, "verdicts": vst, "failing_clauses": clauses, "generator_states": gst,
           "states": stats["distinct"] + gst["distinct"], "transitions": stats["generated"] + gst["generated"]}
    vac = None if vst.get("ok", 0) >= 150 else f"ok={vst.get('ok', 0)}"
    return rep.finish(cov, T0.s(), assumptions=["harness/readers/bexp.py parses sympy's printed boolean expressions and DIMACS"], vacuity=vac)

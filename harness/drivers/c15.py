"""C15 (Grover) and C16 (Deutsch-Jozsa, Bernstein-Vazirani, Simon): functions from spec/AlgoGen.tla are
wrapped by the real algorithm classes; the wrapper circuit is simulated exactly by TLC (spec/QSim.tla) and
judged by spec/Trace_Algo.tla against the meaning of the function's SOURCE (spec/PySem.tla)."""
import json
import random
import signal

from .. import tlc, ser, pyast, render
from ..artefact import run_jobs, type_desc
from ..common import Scratch, Timer, tier, seed, use_repo, vlog
from ..report import Report
from .c01 import NONE, _TO, _alarm
from .c09 import jval


def job(j):
    use_repo()
    from qlasskit import qlassf
    import qlasskit.types as QT
    from qlasskit.algorithms import Grover, DeutschJozsa, BernsteinVazirani, Simon, secret_oracle

    out = []
    signal.signal(signal.SIGALRM, _alarm)
    for it in j["items"]:
        kind, n = it["kind"], it["n"]
        src = render.source(it["def"])
        c = {"kind": kind, "n": n, "form": it["form"], "key": f"{kind}/{it['form']}/n={n}:" + src, "status": "ok", "exc": "",
             "nmatch": it.get("nmatch", 0), "fns": NONE}
        signal.alarm(120)
        accepted = False
        try:
            d = pyast.program(src)
            if it.get("opt") == "fast":
                from qlasskit.boolopt import fastOptimizer
                qf = qlassf(src, bool_optimizer=fastOptimizer)
                c["key"] += " opt=fast"
            else:
                qf = qlassf(src) if not (kind == "bv" and it["form"] == "secret_oracle") else secret_oracle(n, it["secret"])
            accepted = True  # from here on an exception is not a rejection of the program
            c["def"] = d
            if kind == "grover":
                if it["form"] == "element":
                    el = getattr(QT, f"Qint{n}")(it["element"])
                    osrc = f"def oracle(v: Qint[{n}]) -> bool:\n    return g(v) == {it['element']}"
                    c["def"] = pyast.program(osrc)
                    c["fns"] = {"g": d}
                    c["key"] += f" element={it['element']}"
                    obj = Grover(qf, element_to_search=el, n_matching=it["nmatch"])
                else:
                    obj = Grover(qf, n_matching=it["nmatch"])
                argT = type_desc(obj.oracle.args[0].ttype)
            else:
                obj = {"dj": DeutschJozsa, "bv": BernsteinVazirani, "simon": Simon}[kind](qf)
                argT = type_desc(qf.args[0].ttype)
            qc = obj.circuit()
            c["gates"] = ser.ser_gates(qc.gates)
            c["nq"] = int(qc.num_qubits)
            c["outq"] = [int(x) for x in obj.output_qubits]
            c["argT"] = argT
            dec = []
            for v in range(2 ** n):
                s = "".join("1" if (v >> k) & 1 else "0" for k in reversed(range(n)))
                try:
                    r = obj.decode_output(s)
                    dec.append((1 if r == "Constant" else 0) if kind == "dj" else jval(r, argT))
                except Exception as e:
                    dec.append(-1)
            c["dec"] = dec
            # decode_counts on a synthetic dictionary over the whole register (see Trace_Algo!CountsOK)
            cnts = []
            nq = c["nq"]
            for v in sorted({0, 1, 2 ** n - 1, (2 ** n) // 2}):
                if v >= 2 ** n:
                    continue
                low = "".join("1" if (v >> k) & 1 else "0" for k in reversed(range(n)))
                if nq > n:
                    keys = ["0" * (nq - n) + low, "1" + "0" * (nq - n - 1) + low]
                    counts = {keys[0]: 5, keys[1]: 7}
                else:
                    counts = {low: 12}
                for thr in (0, 10, 13):
                    try:
                        r = obj.decode_counts(dict(counts), discard_lower=thr) if thr else obj.decode_counts(dict(counts))
                        res = [[(1 if k == "Constant" else 0) if kind == "dj" else jval(k, argT), int(x)] for k, x in r.items()]
                    except Exception as e:
                        res = [[-1, -1]]
                    cnts.append({"v": v, "thr": thr, "res": res})
            c["cnts"] = cnts
            # decode_output must not modify the outcome it is given (a list shorter than the register is padded)
            arg = [True]
            try:
                obj.decode_output(arg)
            except Exception:
                pass
            c["argmut"] = arg != [True]
            if c["nq"] > 14:
                c["status"] = "too-many-qubits"
        except _TO:
            c["status"] = "timeout"
        except Exception as e:
            c["status"] = "wrapper-raised" if accepted and type(e).__name__ != "ConstantOracleException" else "rejected"
            c["exc"] = f"{type(e).__name__}: {str(e)[:150]}"
        finally:
            signal.alarm(0)
        out.append(c)
    return out


def gen(sc, kind, nb, maxm=1):
    cfg = f"SPECIFICATION Spec\nCONSTANTS Kind = \"{kind}\"\n NB = {nb}\n MaxM = {maxm}\nINVARIANT Emit\nCHECK_DEADLOCK FALSE\n"
    r = tlc.run_model("AlgoGen", cfg, sc, workers=8, timeout=900, tags=("A",), heap="6g")
    return [json.loads(v[1]) for v in r["prints"]["A"]], r["stats"]


def run(pid):
    T0 = Timer()
    t = tier()
    rng = random.Random(seed())
    quick = t == "quick"
    rep = Report(pid, "translation_validation")
    items, gst = [], {"generated": 0, "distinct": 0}
    with Scratch(pid) as sc:
        def add(kind, nb, maxm=1, cap=None, per_form=None):
            xs, st = gen(sc, kind, nb, maxm)
            for k in gst:
                gst[k] += st.get(k, 0)
            import os
            only = os.environ.get("VERIF_ONLY_ORIGIN")   # development aid: every member of one form
            if only:
                xs, per_form, cap = [x for x in xs if x.get("form") == only], None, None
            if per_form:
                byf = {}
                rng.shuffle(xs)
                for x in xs:
                    byf.setdefault((x["form"], x.get("nmatch", 0)), []).append(x)
                # the arithmetic form on 3 bits is small and narrow-trigger territory: every member
                xs = [x for k in sorted(byf, key=str) for x in (byf[k] if (k[0] == "arith" and nb == 3) else byf[k][:per_form])]
            if cap and len(xs) > cap:
                rng.shuffle(xs)
                xs = xs[:cap]
            items.extend(xs)

        if pid == "C15":
            add("grover", 2, 1)                                   # all marked sets, every form
            add("grover", 3, 2, per_form=(4 if quick else None))   # size 1..2 of 8
            add("grover", 4, 4, per_form=(2 if quick else 12))     # size 1..4 of 16
            add("grover", 5, 2 if quick else 3, per_form=(1 if quick else 4))
        else:
            add("dj", 1)
            add("dj", 2)
            add("dj", 3, cap=(36 if quick else None))              # 2 constant + 70 balanced, two forms
            for nb in (2, 3, 4, 5):
                add("bv", nb, cap=(12 if quick and nb >= 4 else None))
            for nb in (2, 3, 4):
                add("simon", nb, cap=(10 if quick and nb == 4 else None))
        vlog("items", len(items))
        res = [c for r in run_jobs(job, [{"items": items[k:k + 3]} for k in range(0, len(items), 3)]) for c in r]
        st, cases = {}, []
        for c in res:
            st[c["status"]] = st.get(c["status"], 0) + 1
            if c["status"] == "ok":
                c["id"] = len(cases)
                cases.append(c)
            elif c["status"] == "wrapper-raised":
                rep.fail({"key": c["key"], "exc": c["exc"]}, "building-the-algorithm-from-an-accepted-function-raised",
                         f"{c['exc']} {c['key']!r}", key=c["key"], triggers=(f"{c['kind']}:wrapper-raised",))
        vlog("built", st)
        verdicts, stats = tlc.run_cases("Trace_Algo", cases, sc, timeout=3000, heap="4g")
    vst, kinds, skips = {}, {}, {}
    for c in cases:
        v = verdicts[c["id"]]
        vst[v[0]] = vst.get(v[0], 0) + 1
        kk = f"{c['kind']}/{c['form']}/n={c['n']}"
        kinds.setdefault(kk, {"ok": 0, "fail": 0, "skip": 0})[v[0]] += 1
        if v[0] == "skip":
            skips[v[1]] = skips.get(v[1], 0) + 1
        if v[0] == "fail":
            rep.fail({"key": c["key"], "gates": len(c["gates"]), "nq": c["nq"]}, v[1], f"at={v[2]} {c['key']!r}", key=c["key"],
                     triggers=(f"{c['kind']}:{v[1]}",))
    rejected = [c for c in res if c["status"] == "rejected"]
    cov = {"programs": len(cases), "disagreements_checked": vst.get("ok", 0),
           "samples": [{"case": c["key"][:200], "nq": c["nq"], "gates": len(c["gates"]), "verdict": verdicts[c["id"]]} for c in cases[:: max(1, len(cases) // 4)][:4]],
           "evaluations": len(cases), "distinct_nontrivial": vst.get("ok", 0),
           "rule": "one case = one algorithm wrapper built by the library for a generated function; its circuit is simulated exactly from |0..0> and the register distribution judged; non-trivial = judged ok (not skipped)",
           "build_status": st, "verdicts": vst, "by_kind": kinds, "skips": skips, "generator_states": gst,
           "rejected_examples": [c["exc"] for c in rejected[:5]],
           "states": stats["distinct"] + gst["distinct"], "transitions": stats["generated"] + gst["generated"]}
    vac = None if vst.get("ok", 0) >= (25 if pid == "C15" else 60) else f"ok={vst.get('ok', 0)}"
    return rep.finish(cov, T0.s(), assumptions=["spec/QSim.tla (exact simulation, ring Z)", "spec/PySem.tla gives the marked set / the function",
                                                 "Algo.IdealGrover transcribes the wrapper with an abstract xor-oracle"], vacuity=vac)

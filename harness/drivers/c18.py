"""C18: the quadratic-model export.  pyqubo is not installed: the library is handed the recording stand-in
/verif/stubs/pyqubo, so what is judged is the model-building tree qlasskit produces (the property's stated
observation point).  spec/Trace_C18.tla evaluates the tree's energy on every assignment."""
import itertools
import random
import signal

from .. import tlc, ser, progs
from ..artefact import run_jobs, arg_desc
from ..common import Scratch, Timer, tier, seed, use_repo, vlog
from ..report import Report
from .c01 import _TO, _alarm
from .c09 import jval


def tree_vars(t, acc):
    if isinstance(t, dict):
        if t.get("k") == "bin":
            acc.add(t["n"])
        for v in t.values():
            tree_vars(v, acc)
    elif isinstance(t, list):
        for v in t:
            tree_vars(v, acc)
    return acc


def job(j):
    use_repo()
    import pyqubo
    if not getattr(pyqubo, "__verif_stub__", False):
        return []
    from qlasskit import qlassf
    from qlasskit.bqm import decode_samples

    out = []
    signal.signal(signal.SIGALRM, _alarm)
    for src in j["srcs"]:
        c = {"key": src, "exc": "", "status": "ok"}
        signal.alarm(30)
        try:
            qf = qlassf(src, to_compile=False)
            if type(qf).__name__ == "UnboundQlassf":
                continue
            c["inputs"] = [b for a in qf.args for b in a.bitvec]
            c["rets"] = [s.name for s, _ in qf.expressions[-qf.output_size:]]
            c["exprs"] = ser.ser_exprs(qf.expressions)
            c["args"] = [arg_desc(a) for a in qf.args]
            if len(c["inputs"]) > 6 or len(c["rets"]) > 4 or len(c["inputs"]) == 0:
                continue
            from qlasskit.boolopt.bool_optimizer import merge_expressions
            merged = merge_expressions(qf.expressions)
            if all(ser.ser_expr(e)["op"] in ("true", "false") for _, e in merged):
                continue  # constant function: there is no variable to build a model over (degenerate, outside the property)
            c["merged"] = ser.ser_exprs(merged)   # input of the refinement model (spec/BQM.tla): sympy's simplification is recorded
        except _TO:
            signal.alarm(0)
            continue
        except Exception:
            signal.alarm(0)
            continue
        try:
            trees = {}
            for fmt in ("bqm", "ising", "qubo", "pq_model"):
                r = qf.to_bqm(fmt)
                trees[fmt] = r[1] if isinstance(r, tuple) else r.tree.to_json()
            c["trees"] = trees
            present = sorted(tree_vars(trees["bqm"], set()) & set(c["inputs"]))
            samples = []
            combos = list(itertools.product([0, 1], repeat=len(present)))[:64]
            ss = [dict(zip(present, vals)) for vals in combos]
            dec = decode_samples(qf, ss)
            for s, d in zip(ss, dec):
                samples.append({"vals": dict(s, __pad__=0),
                                "decoded": dict({a.name: jval(d.sample[a.name], arg_desc(a)["type"]) for a in qf.args}, __pad__=0)})
            c["samples"] = samples
        except _TO:
            c["status"] = "timeout"
        except Exception as e:
            c["exc"] = f"{type(e).__name__}: {str(e)[:150]}"
            c["trees"] = {"bqm": {"k": "const", "v": 0}}
            c["samples"] = []
        finally:
            signal.alarm(0)
        out.append(c)
    return out


def run(pid):
    T0 = Timer()
    t = tier()
    rng = random.Random(seed())
    rep = Report("C18", "translation_validation")
    pool = progs.corpus("C18", t, seed())
    small = [s["src"] for s in pool if s["origin"] in ("small-int", "ExprGen-pair", "ExprGen-program")]
    srcs = [s["src"] for s in pool if s["origin"] not in ("small-int", "ExprGen-pair", "ExprGen-program")]
    rng.shuffle(srcs)
    srcs = small + srcs[: (600 if t == "quick" else 5000)]
    cases = [c for r in run_jobs(job, [{"srcs": srcs[k:k + 10]} for k in range(0, len(srcs), 10)]) for c in r if c["status"] == "ok"]
    for k, c in enumerate(cases):
        c["id"] = k
    vlog("models", len(cases))
    with Scratch("C18") as sc:
        verdicts, stats = tlc.run_cases("Trace_C18", cases, sc, timeout=2400, heap="4g")
        # refinement binding: spec/BQM.tla (the visitor and the summation as written) predicts the recorded tree from the merged
        # definitions; drift is evidence only.  MC_BQM: the visitor's tree is faithful on every ExprGen tree and assignment.
        bcases = [{"id": c["id"], "merged": c["merged"], "tree": c["trees"]["bqm"], "exc": c["exc"]} for c in cases if "merged" in c]
        bverd, _ = tlc.run_cases("Trace_BQM", bcases, sc, timeout=1200, heap="4g") if bcases else ({}, {})
        mc = tlc.run_model("MC_BQM", "SPECIFICATION Spec\nCONSTANTS MaxTok = %d\n Syms = {\"a\",\"b\",\"c\"}\n WithConst = TRUE\nINVARIANT BqmOK\nCHECK_DEADLOCK FALSE\n"
                           % (5 if t == "quick" else 6), sc, workers=8, timeout=1800, tags=("B",), heap="6g")
    refinement = {"spec": "BQM.tla via Trace_BQM", "calls_replayed": len(bcases), "verdicts": {}, "drift_samples": [],
                  "model_checking": {"module": "MC_BQM", "stats": mc["stats"], "broken_invariant": mc.get("violated"),
                                     "faithful_trees": sum(1 for v in mc["prints"]["B"] if v[1] == "faithful"),
                                     "not_translated_trees": sum(1 for v in mc["prints"]["B"] if v[1] != "faithful")}}
    byid = {c["id"]: c for c in cases}
    for b in bcases:
        v = bverd[b["id"]]
        refinement["verdicts"][v] = refinement["verdicts"].get(v, 0) + 1
        if v.startswith("drift") and len(refinement["drift_samples"]) < 5:
            refinement["drift_samples"].append({"src": byid[b["id"]]["key"], "verdict": v})
    vlog("bqm refinement", refinement["verdicts"])
    vst, skips, clauses, asg = {}, {}, {}, 0
    for c in cases:
        v = verdicts[c["id"]]
        vst[v[0]] = vst.get(v[0], 0) + 1
        if v[0] == "ok":
            asg += v[2]
        elif v[0] == "skip":
            skips[v[1]] = skips.get(v[1], 0) + 1
        else:
            clauses[v[1]] = clauses.get(v[1], 0) + 1
            bare = any(e[1]["op"] == "sym" for e in c["exprs"] if e[0] in c["rets"])
            trig = [v[1]] + ([v[1] + ":return-bit-is-a-bare-symbol"] if bare else [])
            rep.fail({"src": c["key"], "tree": c["trees"].get("bqm"), "exc": c["exc"]}, v[1], f"at={v[2]} {c['exc']} src={c['key']!r}",
                     src=c["key"], triggers=tuple(trig))
    cov = {"programs": len(cases), "disagreements_checked": asg,
           "samples": [{"src": c["key"], "verdict": verdicts[c["id"]]} for c in cases[:: max(1, len(cases) // 4)][:4]],
           "evaluations": len(cases), "distinct_nontrivial": vst.get("ok", 0),
           "rule": "one case = one function handed to to_bqm in the four formats; the energy of the recorded model tree is evaluated by TLC on every assignment of inputs and auxiliaries",
           "assignments_enumerated": asg, "verdicts": vst, "skips": skips, "failing_clauses": clauses,
           "states": stats["distinct"], "transitions": stats["generated"], "refinement": refinement}
    vac = None if vst.get("ok", 0) >= 60 else f"ok={vst.get('ok', 0)}"
    return rep.finish(cov, T0.s(), assumptions=[
        "pyqubo is replaced by the recording stand-in /verif/stubs/pyqubo; the claim is about the tree qlasskit builds",
        "penalty polynomials of AndConst/OrConst/NotConst as documented by pyqubo (quoted from memory; XorConst cases are skipped)"], vacuity=vac)

"""C05: encode_input -> circuit -> read output qubits -> decode_output, for every argument valuation
(spec/Trace_C05.tla; reference value from spec/PySem.tla)."""
import itertools
import random
import signal

from .. import tlc, ser, progs, pyast
from ..artefact import run_jobs, optimizer, type_desc
from ..common import Scratch, Timer, tier, seed, use_repo, vlog
from ..report import Report
from .c09 import jval
from .c01 import NONE, _TO, _alarm


def values(T):
    t = T["t"]
    if t == "bool":
        return [False, True]
    if t in ("int", "char", "fixed"):
        return list(range(2 ** T["w"]))
    return [list(x) for x in itertools.product(*[values(e) for e in T["elts"]])]


def to_py(T, v):
    import qlasskit.types as QT

    t = T["t"]
    if t == "bool":
        return bool(v)
    if t == "int":
        return getattr(QT, f"Qint{T['w']}")(v)
    if t == "char":
        return QT.Qchar(chr(v))
    if t == "fixed":
        return getattr(QT, f"Qfixed{T['i']}_{T['f']}")(v / 2 ** T["f"])
    return tuple(to_py(e, x) for e, x in zip(T["elts"], v))


def width(T):
    return 1 if T["t"] == "bool" else (sum(width(e) for e in T["elts"]) if T["t"] == "tuple" else T["w"])


def job(j):
    use_repo()
    from qlasskit import qlassf

    src = j["src"]
    out = {"src": src, "origin": j.get("origin", ""), "cases": [], "status": "ok"}
    try:
        d = pyast.program(src)
    except Exception:
        out["status"] = "unparsable"
        return out
    signal.signal(signal.SIGALRM, _alarm)
    for opt in j.get("opts", ("default",)):
        signal.alarm(int(j.get("timeout", 40)))
        try:
            from qlasskit import _verif
            events = []
            _verif.set_sink(lambda ev, f: events.append((ev, f)))
            try:
                qf = qlassf(src, to_compile=True, bool_optimizer=optimizer(opt))
            finally:
                _verif.set_sink(None)
            if type(qf).__name__ == "UnboundQlassf":
                out["status"] = "unbound"
                return out
        except _TO:
            out["status"] = "timeout"
            return out
        except Exception as e:
            out["status"] = "rejected"
            return out
        finally:
            signal.alarm(0)
        try:
            argT = [type_desc(a.ttype) for a in qf.args]
            nin = sum(width(T) for T in argT)
            wret = len(qf.returns.bitvec)
            if nin > j.get("maxin", 8) or wret > 16 or nin == 0:
                out["status"] = "too-wide"
                return out
            qc = qf.circuit()
            c = {"def": d, "fns": NONE, "params": NONE, "argT": argT,
                 "inputs": [b for a in qf.args for b in a.bitvec], "rets": list(qf.returns.bitvec),
                 "exprs": ser.ser_exprs(qf.expressions), "gates": ser.ser_gates(qc.gates), "nq": int(qc.num_qubits),
                 "inq": [int(x) for x in qf.input_qubits], "opt": opt, "qmap": ser.ser_qmap(qc),
                 "ev": [{"k": "g", "v": f["anc"]} if ev == "qe.getfree" else {"k": "o", "v": f["order"]}
                        for ev, f in events if ev in ("qe.getfree", "ic.operands")]}
            try:
                c["outq"] = [int(x) for x in qf.output_qubits]
                c["outq_exc"] = ""
            except Exception as e:
                c["outq"] = []
                c["outq_exc"] = f"{type(e).__name__}: {e}"
            enc = []
            for vals in itertools.product(*[values(T) for T in argT]):
                try:
                    s = qf.encode_input(*[to_py(T, v) for T, v in zip(argT, vals)])
                    enc.append([list(vals), [1 if ch == "1" else 0 for ch in s]])
                except Exception as e:
                    enc.append([list(vals), [2]])  # raised: cannot match any expected string
            c["enc"] = enc
            rT = type_desc(qf.returns.ttype)
            dec = []
            for p in (range(2 ** wret) if wret <= 10 else []):
                s = "".join("1" if (p >> k) & 1 else "0" for k in reversed(range(wret)))
                try:
                    dec.append(jval(qf.decode_output(s), rT))
                except Exception:
                    dec.append(-1)
            c["dec"] = dec
            pts = sorted({0, 1 % (2 ** wret), 2 ** wret - 1}) if wret <= 10 else []
            counts = {"".join("1" if (p >> k) & 1 else "0" for k in reversed(range(wret))): 5 + 2 * n for n, p in enumerate(pts)}
            c["cin"] = [[p, 5 + 2 * n] for n, p in enumerate(pts)]
            try:
                c["cout"] = [[jval(k, rT), int(v)] for k, v in qf.decode_counts(counts).items()]
            except Exception:
                c["cout"] = [[-1, -1]]
            out["cases"].append(c)
        except ser.Unserialisable:
            out["status"] = "unserialisable"
            return out
    return out


def run(pid):
    T0 = Timer()
    t = tier()
    rng = random.Random(seed())
    rep = Report("C05", "translation_validation")
    srcs = progs.corpus("C05", t, seed())
    jobs = [{"src": s["src"], "origin": s["origin"], "opts": ("default", "fast"),
             "maxin": 8 if t == "quick" else 10} for s in srcs]
    results = run_jobs(job, jobs)
    cases, meta, st = [], {}, {}
    for r in results:
        st[r["status"]] = st.get(r["status"], 0) + 1
        for c in r["cases"]:
            c = dict(c)
            c["id"] = len(cases)
            meta[c["id"]] = (r, c.pop("opt"))
            cases.append(c)
    vlog("compiled", st, len(cases))
    evs = {c["id"]: (c.pop("ev"), c.pop("qmap")) for c in cases}
    with Scratch("C05") as sc:
        verdicts, stats = tlc.run_cases("Trace_C05", cases, sc, timeout=2400, heap="4g")
        # a wrong round trip is attributed to the known synthesis findings only through the refinement model
        from .synth import synth_case, attribute
        failing = [c for c in cases if verdicts[c["id"]][0] == "fail" and verdicts[c["id"]][1] == "decoded-value-differs"]
        attr = attribute(sc, [synth_case(c["id"], c["inputs"], c["exprs"], c["rets"], True, evs[c["id"]][0], c["gates"], c["nq"],
                                         evs[c["id"]][1]) for c in failing]) if failing else {}
    vst, vals, shapes, skips = {}, 0, {}, {}
    nontrivial = set()
    for c in cases:
        v = verdicts[c["id"]]
        r, opt = meta[c["id"]]
        vst[v[0]] = vst.get(v[0], 0) + 1
        if v[0] == "ok":
            vals += v[2]
            shape = "/".join(T["t"] for T in c["argT"]) + "->" + c["def"]["rdesc"]["t"]
            shapes[shape] = shapes.get(shape, 0) + 1
            if v[2] >= 4:
                nontrivial.add(r["src"])
        elif v[0] == "skip":
            skips[v[1]] = skips.get(v[1], 0) + 1
        elif v[0] == "fail":
            sv, trig = attr.get(c["id"], (None, ()))
            rep.fail({"src": r["src"], "opt": opt, "outq": c["outq"], "outq_exc": c["outq_exc"], "model": sv}, v[1],
                     f"row={v[2]} n={v[3]} opt={opt} {c['outq_exc']} model={sv} src={r['src']!r}", src=r["src"], key=opt, triggers=trig)
    cov = {"programs": len(cases), "disagreements_checked": vals,
           "samples": [{"src": meta[c["id"]][0]["src"], "verdict": verdicts[c["id"]]} for c in cases[:: max(1, len(cases) // 4)][:4]],
           "evaluations": len(cases), "distinct_nontrivial": len(nontrivial),
           "rule": "one case = one compiled program; every argument valuation is pushed through encode_input, the recorded gate list (run by TLC), the reported output qubits and decode_output; non-trivial = at least 4 valuations compared with the reference value",
           "valuations_compared": vals, "signature_shapes": shapes, "compile_status": st, "verdicts": vst, "skips": skips,
           "states": stats["distinct"], "transitions": stats["generated"]}
    vac = None if vst.get("ok", 0) >= 60 else f"only {vst.get('ok', 0)} ok cases"
    return rep.finish(cov, T0.s(), assumptions=["spec/PySem.tla, spec/Codec.tla, spec/Circuit.tla (contract layer)"], vacuity=vac)

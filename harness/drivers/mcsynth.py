"""Model checking of the synthesis machine (spec/MC_Synth.tla) over a universe of expression lists that
the real front end produces for boolean programs enumerated by spec/ExprGen.tla; used by the C02 check.
The universe is built by the real library (sympy-canonical trees through the optimizer), the state graph
is explored by TLC under both choice policies with the machine's invariants evaluated in every state, and
the lists on which an invariant breaks are returned so that the caller replays them as programs."""
import json
import signal

from .. import tlc, ser
from ..artefact import run_jobs, optimizer
from ..common import is_ret,  use_repo, vlog


def tree_src(t):
    op = t["op"]
    if op == "sym":
        return t["n"]
    if op == "true":
        return "True"
    if op == "false":
        return "False"
    a = [tree_src(x) for x in t.get("args", [])]
    if op == "not":
        return f"(not {a[0]})"
    if op == "and":
        return "(" + " and ".join(a) + ")"
    if op == "or":
        return "(" + " or ".join(a) + ")"
    if op == "xor":
        return "(" + " ^ ".join(a) + ")"
    if op == "ite":
        return f"({a[1]} if {a[0]} else {a[2]})"
    if op == "implies":
        return f"((not {a[0]}) or {a[1]})"
    raise ValueError(op)


def program_of(tree, k=0, shape="ret"):
    e = tree_src(tree)
    if shape == "ret":
        body = f"    return {e}"
    elif shape == "var":
        body = f"    t = {e}\n    return t ^ a"
    else:
        body = f"    t = {e}\n    t = t and b\n    return (t, t ^ c)"
    rt = "Tuple[bool, bool]" if shape == "two" else "bool"
    return f"def f(a: bool, b: bool, c: bool) -> {rt}:\n{body}"


def universe_job(j):
    use_repo()
    from qlasskit import qlassf

    out = []
    for src in j["srcs"]:
        for opt in ("fast", "default"):
            signal.alarm(20)
            try:
                qf = qlassf(src, to_compile=False, bool_optimizer=optimizer(opt))
                ex = ser.ser_exprs(qf.expressions)
                names = [n for n, _ in ex]
                out.append({"src": src, "opt": opt, "inputs": [b for a in qf.args for b in a.bitvec], "exprs": ex,
                            "rets": sorted({n for n in names if is_ret(n)}),
                            "temps": sorted({n for n in names if n.startswith("__")}),
                            "retbits": list(qf.returns.bitvec), "unc": True, "ev": []})
            except Exception:
                pass
            finally:
                signal.alarm(0)
    return out


def run(sc, trees, rng, quick):
    signal.signal(signal.SIGALRM, lambda *a: (_ for _ in ()).throw(TimeoutError()))
    srcs = []
    for k, t in enumerate(trees):
        srcs.append(program_of(t, k, "ret"))
        if k % 3 == 0:
            srcs.append(program_of(t, k, "var"))
        if k % 7 == 0:
            srcs.append(program_of(t, k, "two"))
    uni = [u for r in run_jobs(universe_job, [{"srcs": srcs[k:k + 25]} for k in range(0, len(srcs), 25)]) for u in r]
    seen, universe = set(), []
    for u in uni:
        key = json.dumps([u["inputs"], u["exprs"]], sort_keys=True)
        if key not in seen:
            seen.add(key)
            u["id"] = len(universe)
            universe.append(u)
    vlog("mc universe", len(universe), "lists from", len(srcs), "programs")
    cfg = "SPECIFICATION Spec\nINVARIANT Report\nCHECK_DEADLOCK FALSE\n"
    import os
    path = os.path.join(sc, "mc_universe.json")
    with open(path, "w") as f:
        json.dump(universe, f)
    r = tlc.run_model("MC_Synth", cfg, sc, env={"CASES": path}, workers=16, timeout=3000, tags=("B",), heap="8g")
    broken = {}
    for _, cid, pol, pc, bs in r["prints"]["B"]:
        for b in bs["__set__"]:
            broken.setdefault(b.split(":")[0], {}).setdefault(pol, set()).add(cid)
    summary = {inv: {pol: len(ids) for pol, ids in pols.items()} for inv, pols in broken.items()}
    bad_ids = set()
    for inv in ("Correct", "Clean", "NoError"):
        for ids in broken.get(inv, {}).values():
            bad_ids |= ids
    return {"universe": len(universe), "programs": len(srcs), "stats": r["stats"], "broken_invariants": summary,
            "lists_breaking_a_contract_clause_in_the_model": len(bad_ids)}, [universe[i]["src"] for i in sorted(bad_ids)], srcs

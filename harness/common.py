"""Shared plumbing for the /verif checks: where the library under test lives, scratch space,
seeds/tiers, evidence files, the VIOLATION / KNOWN-FINDING interface.

Nothing in here (or anywhere in the Python harness) computes the *meaning* of a program, an
expression or a circuit: that is done by TLC evaluating the TLA+ contract layer in /verif/spec.
"""
import hashlib
import json
import os
import shutil
import sys
import time

VERIF = os.path.dirname(os.path.dirname(os.path.abspath(__file__)))
REPO = os.environ.get("VERIF_REPO", "/repo")
SPEC = os.path.join(VERIF, "spec")
OUT = os.path.join(VERIF, "out")
# evidence describes /repo itself: development runs against another tree or a single family write elsewhere
EVID = os.path.join(VERIF, "evidence") if (REPO == "/repo" and not os.environ.get("VERIF_ONLY_ORIGIN")) else os.path.join(OUT, "evidence-dev")
REPLAY = os.path.join(OUT, "replay")

GUARD = "QLASSKIT_VERIF"


def is_ret(name):
    """names of return bits: _ret, _ret.0, _ret.1.0 ... (a variable of the program may be called _retry)"""
    return name == "_ret" or name.startswith("_ret.")


def use_repo():
    """Import the library from the tree under test (current working tree, hooks on)."""
    os.environ[GUARD] = "1"
    if REPO not in sys.path:
        sys.path.insert(0, REPO)
    stubs = os.path.join(VERIF, "stubs")
    if stubs not in sys.path:
        sys.path.append(stubs)  # only used for packages that are not installed (pyqubo)
    import qlasskit  # noqa: F401

    got = os.path.dirname(os.path.dirname(os.path.abspath(qlasskit.__file__)))
    if os.path.realpath(got) != os.path.realpath(REPO):
        raise MachineryError(f"qlasskit imported from {got}, expected {REPO}")
    return qlasskit


class MachineryError(Exception):
    """Anything that is not a verdict: exit code 2."""


def seed():
    try:
        return int(os.environ.get("VERIF_SEED", "0"))
    except ValueError:
        return 0


def tier(default="quick"):
    return os.environ.get("VERIF_TIER", default)


class Scratch:
    """Per-run scratch directory under /verif/out, removed on exit."""

    def __init__(self, tag):
        self.path = os.path.join(OUT, f"run-{tag}-{os.getpid()}")

    def __enter__(self):
        shutil.rmtree(self.path, ignore_errors=True)
        os.makedirs(self.path, exist_ok=True)
        return self.path

    def __exit__(self, *a):
        if not os.environ.get("VERIF_KEEP"):
            shutil.rmtree(self.path, ignore_errors=True)


def sha(obj):
    return hashlib.sha256(json.dumps(obj, sort_keys=True, default=str).encode()).hexdigest()[:12]


def write_replay(pid, case):
    os.makedirs(REPLAY, exist_ok=True)
    p = os.path.join(REPLAY, f"{pid}-{sha(case)}.json")
    with open(p, "w") as f:
        json.dump(case, f, indent=1, default=str)
    return p


def write_evidence(pid, tier_, level, coverage, wall_s, violations, assumptions=None, extra=None):
    os.makedirs(EVID, exist_ok=True)
    ev = {
        "property_id": pid,
        "tier": tier_,
        "seed": seed(),
        "level": level,
        "coverage": coverage,
        "assumptions": assumptions or [],
        "wall_s": round(wall_s, 2),
        "violations": violations,
    }
    if extra:
        ev.update(extra)
    with open(os.path.join(EVID, f"{pid}.json"), "w") as f:
        json.dump(ev, f, indent=1, default=str)
    return ev


class Timer:
    def __init__(self):
        self.t0 = time.time()

    def s(self):
        return time.time() - self.t0


def vlog(*a):
    """progress/timing to stderr when VERIF_VERBOSE is set"""
    if os.environ.get("VERIF_VERBOSE"):
        print("[verif %.1fs]" % (time.time() - _T0), *a, file=sys.stderr, flush=True)


_T0 = time.time()

"""Entry point of every registered check:  ./check <id> --tier quick|thorough [--replay path]"""
import argparse
import os
import sys

from .report import main_wrap

DRIVERS = {
    "C02": ("synth", "C02"), "C03": ("synth", "C03"), "C06": ("synth", "C06"),
    "C09": ("c09", "C09"), "C04": ("c04", "C04"), "C01": ("c01", "C01"), "C05": ("c05", "C05"), "C07": ("c07", "C07"), "C11": ("c11", "C11"), "C14": ("c14", "C14"), "C13": ("c13", "C13"), "C15": ("c15", "C15"), "C10": ("c10", "C10"), "C17": ("c17", "C17"), "C18": ("c18", "C18"), "C16": ("c15", "C16"), "C12": ("c11", "C12"), "C08": ("c08", "C08"),
}


def main():
    ap = argparse.ArgumentParser()
    ap.add_argument("pid")
    ap.add_argument("--tier", default=os.environ.get("VERIF_TIER", "quick"))
    ap.add_argument("--replay")
    a = ap.parse_args()
    os.environ["VERIF_TIER"] = a.tier
    if a.replay:
        os.environ["VERIF_REPLAY"] = a.replay
    if a.pid not in DRIVERS:
        print(f"unknown property {a.pid}", file=sys.stderr)
        return 2
    mod, arg = DRIVERS[a.pid]
    m = __import__(f"harness.drivers.{mod}", fromlist=["run"])
    return m.run(arg)


if __name__ == "__main__":
    main_wrap(main)
